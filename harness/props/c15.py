"""C15 — a rejected edit leaves the system untouched."""
import json, hashlib
from .. import hist as H, histgen as G
from . import c14

CLAIM = True
LEVEL_TEXT = ("Theorems (Lean 4) about the statement-by-statement model of add_source/add_comp/change_comp/del_comp/"
              "set_sys_phases/set_comp_phases: from every well-formed state (hence from every reachable state, by C14) a call that "
              "raises leaves the model state literally unchanged (graph, index allocator, all six registries) and raises "
              "ValueError; hence a history with a rejected call runs exactly like the history without it. Full strength: no "
              "hypothesis on the call (del_comp(<rail name>), which used to delete the rail's owner and then raise KeyError - "
              "finding F20 found by this check - and add_comp([]) -> IndexError, F34, are fixed in /repo and kept as regressions). "
              "Tie to the code: random histories with ~60% rejected calls; for every call that raises, params(limits=True), "
              "phases(), tree(), the save() document and the solve() table (or their exception classes) are compared before/after.")
LEVEL_NOTE = ("proved for all calls from well-formed (= all reachable) states; the tie between model and system.py is testing "
              "(correspondence after every call + before/after comparison of all public reports), not proof.")
MODULE = "SysLoss.Props.C15"
THEOREMS = [
    "SysLoss.C15.reject_noop", "SysLoss.C15.error_class", "SysLoss.C15.reject_noop_reachable",
    "SysLoss.C15.reject_then_continue", "SysLoss.C15.reject_nonvacuous", "SysLoss.C15.regression_F20",
]
RULE = ("random histories of 5-60 calls (all six editing / configuration methods) over 12 names and 6 rail names, ~60% crafted "
        "rejections of every cause in the property's list; for EVERY call that raises: full observable state before == after and the "
        "class is ValueError; at the end the history without its rejected calls is replayed on a fresh system and must give the same "
        "reports; every step is also compared with the Lean model; non-trivial = history with >= 3 rejected calls made in a state "
        "with >= 3 components; distinct by history")
ASSUMPTIONS = c14.ASSUMPTIONS + ["'before == after' compares params(limits=True), phases(), tree(), the save() JSON document and the "
                                 "solve() table (or the exception class each raises), produced by the same process, cell by cell"]
EXPLANATION = ("theorems: SysLoss.Props.C15; correspondence: Lean `hist` run vs the real System after every call (outcome class, "
               "structure, registries); oracle: before/after equality of all public reports around every raising call, error class, "
               "and replay without the rejected calls; corpus/C15: the minimal histories of the fixed findings F20, F34")

FULL_KEYS = ("comps", "params", "links", "doc", "save_exc", "phases_rep", "solve", "params_exc", "tree_exc")


def snapshot(obs):
    return json.dumps({k: obs.get(k) for k in FULL_KEYS}, sort_keys=True)


def diff_keys(a, b):
    return [k for k in FULL_KEYS if json.dumps(a.get(k), sort_keys=True) != json.dumps(b.get(k), sort_keys=True)]


def first_failure(run):
    """(step, clause, detail) of the first raising call that changed something / raised a non-ValueError"""
    prev = run.obs0
    for k, s in enumerate(run.steps):
        if s["outcome"] != "ok":
            d = diff_keys(prev, s["obs"])
            if d:
                return (k, "state_unchanged", {"reports_that_changed": d, "exception": s["outcome"], "message": s["msg"],
                                               "components_before": prev["comps"], "components_after": s["obs"]["comps"]})
            if s["outcome"] != "ValueError":
                return (k, "error_class", {"exception": s["outcome"], "message": s["msg"]})
        prev = s["obs"]
    return None


def continue_failure(run):
    """the history without its rejected calls, on a fresh system, ends in the same observable state"""
    if run.init_outcome != "ok" or not run.steps or all(s["outcome"] == "ok" for s in run.steps):
        return None
    acc = {"init": run.init, "ops": [s["op"] for s in run.steps if s["outcome"] == "ok"]}
    r2 = H.replay(acc)
    if any(s["outcome"] != "ok" for s in r2.steps):
        return {"why": "a call accepted in the full history is rejected without the rejected calls",
                "outcomes": [s["outcome"] for s in r2.steps]}
    a, b = H.observe(run.sys, True), H.observe(r2.sys, True)
    d = diff_keys(a, b)
    return {"reports_that_differ": d} if d else None


def shrink(hist, clause, kind):
    def fails(h):
        r = H.replay(h, full=True)
        f = first_failure(r)
        return f is not None and f[1] == clause and r.steps[f[0]]["op"]["op"] == kind
    return H.ddmin(hist, fails)


def report(ctx, run, stream):
    f = first_failure(run)
    if f is None:
        return False
    k, clause, detail = f
    kind = run.steps[k]["op"]["op"]
    small = shrink({"init": run.init, "ops": run.ops[:k + 1]}, clause, kind)
    r2 = H.replay(small, full=True)
    f2 = first_failure(r2) or f
    if f2 is f:
        small, r2 = {"init": run.init, "ops": run.ops[:k + 1]}, run
    trig = {a: b for a, b in r2.steps[f2[0]]["facts"].items() if b}
    ctx.oracle({"history": small, "calls": H.short(small)}, clause, kind, trig, {"stream": stream, **f2[2]})
    ctx.stats["oracle:%s:%s" % (clause, kind)] += 1
    return True


def check_history(ctx, run, stream, causes=None):
    hist = run.history()
    res = H.model(ctx.drv, hist)
    ctx.traces += 1
    c = c14.corr_fail(run, res)
    if c is None and run.init_outcome == "ok":
        # the executed instance of `reject_noop`: a raising call with Safe15 leaves the MODEL state unchanged
        prev = res["state"]
        for k, ms in enumerate(res["steps"]):
            if ms["outcome"] != "ok" and not prev["wf"] and ms["state"] != prev:
                c = (k, "model: a rejected call changed the model state (theorem reject_noop, executed)", {})
                break
            prev = ms["state"]
    if c is not None:
        rel = c[1]

        def fails(h):
            r = H.replay(h)
            cc = c14.corr_fail(r, H.model(ctx.drv, r.history()))
            return cc is not None and cc[1] == rel
        small = H.ddmin({"init": hist["init"], "ops": hist["ops"][:max(c[0], 0) + 1]}, fails)
        ctx.corr({"history": small, "calls": H.short(small)}, rel, {"step": c[0], "stream": stream, **c[2]})
    bad = report(ctx, run, stream)
    if not bad:
        d = continue_failure(run)
        if d is not None:
            ctx.oracle({"history": hist, "calls": H.short(hist)}, "continue_as_if_never_made", "history", {}, {"stream": stream, **d})
            bad = True
    rej_big = sum(1 for k, s in enumerate(run.steps) if s["outcome"] != "ok" and
                  len((run.steps[k - 1]["st"] if k else run.st0)["comps"]) >= 3)
    ctx.case(key=c14._hist_key(hist), nontrivial=(rej_big >= 3),
             sample={"calls": H.short(hist)[:12], "outcomes": [s["outcome"] for s in run.steps][:11]})
    return bad


def gen_history(ctx, cfg, causes, stream="main", lo=5, hi=60):
    rng = ctx.rng
    run = H.Run(G.gen_init(rng, cfg), full=True)
    L = rng.randint(lo, hi)
    for k in range(L):
        pre = run.cur()
        op, intent = G.gen_op(rng, pre, run.recorded, k + 1, cfg)
        s = run.apply(op)
        ctx.stats["%s:call:%s" % (stream, op["op"])] += 1
        ctx.stats["%s:outcome:%s" % (stream, s["outcome"])] += 1
        if H.unsafe_ids(op, s["facts"]):
            ctx.stats["%s:open-finding-trigger-calls" % stream] += 1
        if s["outcome"] != "ok":
            ment = []
            for fld in ("parent", "name", "rail"):
                x = op.get(fld)
                ment += list(x) if isinstance(x, list) else ([x] if isinstance(x, str) and x else [])
            if "comp" in op:
                ment.append(op["comp"]["name"])
            cfg.prefer = list(dict.fromkeys([m for m in ment if isinstance(m, str)] + list(cfg.prefer)))[:6]
            cause = intent if intent != "valid" else "uncrafted"
            key = hashlib.sha1(json.dumps([pre["comps"], pre["links"], pre["rails"]], sort_keys=True).encode()).hexdigest()
            causes.setdefault("%s/%s" % (op["op"], cause), set()).add(key)
        if s["wf"] or s["st"]["save_exc"]:
            ctx.stats["%s:history cut at a structure broken by an accepted call (C14's business)" % stream] += 1
            break
        if s["outcome"] != "ok" and diff_keys(run.steps[-2]["obs"] if len(run.steps) > 1 else run.obs0, s["obs"]):
            break
    return run


FINDING_STREAMS = ["F20", "F34"]


def trigger_history(ctx, fid):
    rng = ctx.rng
    cfg = G.Cfg(p_reject=0.3, p_unsafe=0.0, w_phase=0.1, phase_reject=True)
    run = H.Run(G.gen_init(rng, cfg), full=True)
    warm = rng.randint(1, 8)
    for k in range(30):
        if k >= warm:
            op = G.gen_trigger(rng, run.cur(), run.recorded, k + 1, fid)
            if op is not None:
                run.apply(op)
                return run
        op, _ = G.gen_op(rng, run.cur(), run.recorded, k + 1, cfg)
        s = run.apply(op)
        if s["wf"]:
            return run
    return run


def stale_name_history(ctx):
    """"... and later calls behave as if the rejected call had never been made", aimed: a short valid prefix, then a REJECTED call
    that mentions a name U which does not exist yet (as a parent - alone or at any position of a PMux parent list -, as the target of
    change_comp / del_comp / set_comp_phases), then U is brought into existence at once (as a component or as a rail) and is used at
    once (as parent, as target) - with no other edit in between that could wash out what the rejected call left behind."""
    rng = ctx.rng
    cfg = G.Cfg(p_reject=0.0, p_unsafe=0.0, w_phase=0.05, p_mux=0.0)
    run = H.Run(G.gen_init(rng, cfg), full=True)
    for k in range(rng.randint(1, 6)):
        op, _ = G.gen_op(rng, run.cur(), run.recorded, k + 1, cfg)
        s = run.apply(op)
        if s["wf"]:
            return run
    v = G.View(run.cur())
    free = [x for x in H.NAMES + H.RAILS if x not in v.used]
    nonload = [x for x in v.names if v.ctype[x] != "LOAD"]
    if len(free) < 3 or not nonload:
        return run
    u, n1, n2 = rng.sample(free, 3)
    par = rng.choice(nonload)
    how = rng.choice(["parent", "list", "list", "list", "change", "del", "phases"])
    if how == "parent":
        bad = {"op": "add_comp", "parent": u, "comp": G.new_comp("iload", n1, 90), "group": "", "rail": ""}
    elif how == "list":
        pl = [par, u] + ([rng.choice(nonload)] if rng.random() < 0.4 else [])
        rng.shuffle(pl)
        bad = {"op": "add_comp", "parent": list(dict.fromkeys(pl)), "comp": G.new_comp("pmux", n1, 90), "group": "", "rail": ""}
    elif how == "change":
        bad = {"op": "change_comp", "name": u, "comp": G.new_comp("converter", n1, 90), "group": "", "rail": ""}
    elif how == "del":
        bad = {"op": "del_comp", "name": u, "del_childs": rng.random() < 0.5}
    else:
        bad = {"op": "set_comp_phases", "name": u, "conf": {"names": ["p1"]}}
    run.apply(bad)
    ctx.stats["stale_name:rejected_by:%s" % how] += 1
    # U comes into existence ...
    as_rail = rng.random() < 0.6
    if as_rail:
        mk = rng.choice([{"op": "add_comp", "parent": par, "comp": G.new_comp("converter", n1, 91), "group": "", "rail": u},
                         {"op": "add_source", "comp": G.new_comp("source", n1, 91), "group": "", "rail": u}])
    else:
        mk = {"op": "add_comp", "parent": par, "comp": G.new_comp("converter", u, 91), "group": "", "rail": ""}
    s = run.apply(mk)
    ctx.stats["stale_name:becomes:%s" % ("rail" if as_rail else "component")] += 1
    if s["outcome"] != "ok":
        return run
    # ... and is used
    use = rng.choice(["parent", "parent", "mux"] + ([] if as_rail else ["phases", "change", "del"]))
    if use == "parent":
        op = {"op": "add_comp", "parent": u, "comp": G.new_comp("pload", n2, 92), "group": "", "rail": ""}
    elif use == "mux":
        op = {"op": "add_comp", "parent": [u, par] if rng.random() < 0.5 else [par, u], "comp": G.new_comp("pmux", n2, 92), "group": "", "rail": ""}
    elif use == "phases":
        op = {"op": "set_comp_phases", "name": u, "conf": {"names": ["p1", "p2"]}}
    elif use == "change":
        op = {"op": "change_comp", "name": u, "comp": G.new_comp("linreg", u, 92), "group": "g1", "rail": ""}
    else:
        op = {"op": "del_comp", "name": u, "del_childs": True}
    run.apply(op)
    ctx.stats["stale_name:used_as:%s" % use] += 1
    return run


def run_witnesses(ctx):
    from ..check import load_known
    for k in load_known():
        if k["property"] == ctx.prop and k.get("status") == "open" and "witness_hist" in k:
            run = H.replay(k["witness_hist"], full=True)
            ctx.stats["witness_runs"] += 1
            if not check_history(ctx, run, "witness:" + k["id"]):
                ctx.notes.append("witness of %s no longer fails" % k["id"])


def run_corpus(ctx):
    import glob, os
    from ..check import VERIF
    for f in sorted(glob.glob(os.path.join(VERIF, "corpus", ctx.prop, "*.json"))):
        h = json.load(open(f))["case"]["history"]
        r = H.replay(h, full=True)
        ctx.stats["corpus_runs"] += 1
        check_history(ctx, r, "corpus:" + os.path.basename(f))


def run(ctx):
    run_corpus(ctx)
    run_witnesses(ctx)
    cfg = G.Cfg(p_reject=0.6, p_unsafe=1.0, w_phase=0.25, phase_reject=True)
    causes = {}
    for _ in range(ctx.n(90, 1700)):
        r = gen_history(ctx, cfg, causes)
        check_history(ctx, r, "main")
    calls = sum(v for k, v in ctx.stats.items() if k.startswith("main:call:"))
    ctx.stats["main:open-finding-trigger-share-permille"] = int(
        1000 * ctx.stats.get("main:open-finding-trigger-calls", 0) / max(calls, 1))
    for c, states in sorted(causes.items()):
        ctx.stats["rejected:%s:distinct-pre-states" % c] = len(states)
    for _ in range(ctx.n(60, 900)):
        r = stale_name_history(ctx)
        ctx.stats["stream:stale_name:histories"] += 1
        check_history(ctx, r, "stale_name")
    for _ in range(ctx.n(40, 600)):
        r = H.Run(G.gen_init(ctx.rng, cfg), full=True)
        if r.init_outcome == "ok":
            G.mux_family(ctx.rng, r.apply)
            ctx.stats["stream:mux_family:histories"] += 1
            check_history(ctx, r, "mux_family")
    for fid in FINDING_STREAMS:
        for _ in range(ctx.n(3, 40)):
            r = trigger_history(ctx, fid)
            ctx.stats["stream:%s:histories" % fid] += 1
            check_history(ctx, r, "finding:" + fid)


def search(ctx):
    cfg = G.Cfg(p_reject=0.6, p_unsafe=0.0, w_phase=0.25, phase_reject=True, p_weird=0.05)
    causes = {}
    for _ in range(ctx.n(40, 400)):
        r = gen_history(ctx, cfg, causes, stream="search")
        check_history(ctx, r, "search")


def replay(ctx, data):
    h = data["case"]["history"] if "history" in data.get("case", {}) else data["case"]
    r = H.replay(h, full=True)
    check_history(ctx, r, "replay")
