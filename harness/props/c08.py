"""C08 — the rail report is the solve() table summed per supply rail."""
from .. import gen, oracles, solved, sysdesc, wire

CLAIM = True
MODULE = "SysLoss.Props.C08"
THEOREMS = ["SysLoss.C08." + t for t in (
    "rail_row_spec", "rail_complete", "no_rails_empty")] + [
    # Props/C08System: the same on the table the model assembles for a whole well-formed system (who the owner is, who the members are)
    "SysLoss.C08S." + t for t in (
    "row_railIn_spec", "row_supplier_spec", "supplier_eq_some_iff", "rail_volt_is_owner_vout", "rail_members_are_children",
    "rail_curr_is_owner_iout", "owner_iout", "share_supplier", "dead_mux_curr", "rails_partition", "rails_partition_system",
    "no_rails_same_table", "rail_row_core", "solve_is_assemble", "solve_rail_report", "reachable_rail_report")]
MODULES = ["SysLoss.Props.C08", "SysLoss.Props.C08System"]
LEVEL_TEXT = ("Theorems (Lean 4) about the model of rail_rep(): every row belongs to a (phase, named rail) that feeds at least one component in that phase, its current/power/loss are the sums of Iin/Power/Loss over exactly the component rows whose Rail in is that rail, its voltage is their Vin and its warnings are exactly their distinct non-empty warning texts; every such (phase, rail) has a row; without a feeding rail there are no rows. Tied to the code on every run: rail_rep() of random trees with rails, limits, phases and a mux compared with the model's report assembled from the implementation's (v,i), and an oracle that groups the solve() table of the same call by Rail in.")
LEVEL_TEXT = LEVEL_TEXT + (" Props/C08System closes the gap between 'rows whose Rail in is r' and the property's words, on the table the model assembles for any well-formed system "
              "(TreeWF, distinct names, unique rails - all proved for every reachable system): a row's Rail in is the rail of its SUPPLIER (its one parent; for a PMux the selected input) and its Vin "
              "is the supplier's Vout cell (`row_railIn_spec`); a rail row's voltage is the Vout cell of the unique OWNER of the rail (`rail_volt_is_owner_vout`); its members are exactly the nodes "
              "the owner supplies, a PMux iff the owner is its selected input (`rail_members_are_children`); in exact steady states the rail current equals the owner's Iout cell "
              "(`rail_curr_is_owner_iout`, full strength); every row with a Rail in is counted in exactly one rail row and the per-phase sums agree (`rails_partition`); without rails every "
              "Rail in / Rail out is blank and the report is empty (`no_rails_same_table`); `solve_rail_report` / `reachable_rail_report` carry this to what solve() returns and to every edit history.")
LEVEL_NOTE = ('Genuine defects found by this check and repaired: warning text lost when all members share it (873c44e); IndexError when a rail feeds nothing in one phase (f76c09b). rail_rep() returning None when rails exist but feed nothing is read as the empty listing.')
RULE = ("random trees with unique rail names on a random subset of the non-load components, parents addressed by rail or by name, "
        "limits planted so that a good share of the rows warn, phases on half, a mux on half; also trees without any rail; "
        "non-trivial = at least one named rail feeds a component")
ASSUMPTIONS = ["rail_rep() returning None when rails exist but none feeds a component is read as the empty listing"]


def _twins(kind, args, extra):
    comps = [{"name": "B", "kind": "source", "args": {"vo": 5.0}, "parents": []},
             {"name": "R", "kind": "linreg", "args": {"vo": 3.3}, "parents": ["B"], "rail": "V3V3"},
             {"name": "T1", "kind": kind, "args": dict(args), "parents": ["V3V3"]},
             {"name": "T2", "kind": kind, "args": dict(args), "parents": ["R"]}]
    if extra:
        comps.append({"name": "X", "kind": "iload", "args": {"ii": 0.05}, "parents": ["V3V3"]})
    return {"name": "twins", "comps": comps, "phases": {}}


TWINS = [_twins("iload", {"ii": 0.1}, True), _twins("pload", {"pwr": 0.33}, False), _twins("rload", {"rs": 33.0}, True),
         _twins("iload", {"ii": 0.1, "limits": {"ii": [0.0, 0.01]}}, True)]


def gen_fn(rng):
    if rng.random() < 0.12:
        return gen.gen_system(rng, phases=0.3, p_rail=0.0, max_nodes=10)
    return gen.gen_system(rng, phases=0.5, p_rail=0.6, p_limits=0.5, p_rt=0.3, p_mux=0.5, max_nodes=16, p_neg_src_rs=0.0, p_dup=0.2)


def one(ctx, desc, kw=None):
    kw = kw or desc.get("_solve_kw") or {"vtol": 1e-10, "itol": 1e-10}
    desc["_solve_kw"] = dict(kw)          # kept with the case so that a replay uses the same call arguments
    sys_, df, err = solved.solve_case(desc, kw)
    if err is not None:
        ctx.stats["outcome:%s:%s" % (err[0], sysdesc.exc_class(err[1]))] += 1
        ctx.case(nontrivial=False)
        return err[0] == "build"
    rr, e = sysdesc.quiet_call(sys_.rail_rep, **kw)
    obs = sysdesc.observe(df)
    if not solved.rows_ok(ctx, desc, obs):
        ctx.case(nontrivial=False)
        return False
    solved.shape_stats(ctx, desc)
    has_rails = any(c.get("rail") and c["kind"] not in oracles.LOADS for c in desc["comps"])
    fed = any(r.get("railIn") for p in obs["phases"] for r in p["rows"])
    ctx.case(key=solved.desc_key(desc), nontrivial=fed,
             sample={"components": [(c["kind"], c["name"], c["parents"], c.get("rail", "")) for c in desc["comps"]]})
    ctx.stats["rails:%s" % ("none" if not has_rails else "fed" if fed else "unfed")] += 1
    if e is not None:
        ctx.oracle(desc, "rail_rep_raises", "rail_rep", {"cls": type(e).__name__}, {"exception": repr(e)})
        return False
    model = solved.cert(ctx.drv, desc, obs, ta=kw.get("ta", 25.0))
    ctx.traces += 1
    if not model.get("ok"):
        ctx.corr(desc, "constructor: the model rejects a component the implementation accepted", model)
        return False
    if not has_rails:
        # no rails defined: the same table as solve()
        same = rr is not None and list(rr.columns) == list(df.columns) and len(rr) == len(df) and \
            all((a == b) or (isinstance(a, float) and isinstance(b, float) and abs(a - b) <= 1e-12 * max(1, abs(a)))
                for ca in df.columns for a, b in zip(df[ca].tolist(), rr[ca].tolist()))
        if not same:
            ctx.oracle(desc, "no_rails_same_as_solve", "rail_rep", {}, {"solve_rows": len(df), "rail_rep_rows": None if rr is None else len(rr)})
        return False
    rails = oracles.observe_rails(rr) if rr is not None else []
    junk = [r for r in rails if r.get("_not_numeric")]
    if junk:
        ctx.oracle(desc, "rail_sums", "rail_rep", {"not_numeric": True},
                   {"phase": junk[0]["phase"], "rail": junk[0].get("rail"), "cells_that_are_not_numbers": junk[0]["_not_numeric"], "solve_kw": kw})
        return False
    # correspondence: the model's rail report (assembled from the implementation's v,i)
    mr = {(r["phase"], r["rail"]): r for r in model["rails"]}
    gr = {(r["phase"], r["rail"]): r for r in rails}
    if set(mr) != set(gr):
        ctx.corr(desc, "rail_rep: set of (phase, rail) rows", {"impl": sorted(gr), "model": sorted(mr)})
    else:
        for k, g in gr.items():
            m = mr[k]
            for col in ("volt", "curr", "pwr", "loss", "eff"):
                if not solved.close(g[col], wire.unnum(m[col]), scale=1e-3 * max(abs(g["pwr"]), abs(g["loss"])) if col != "eff" else 0.0, rel=1e-8):
                    ctx.corr(desc, "rail_rep: %s" % col, {"row": k, "impl": g[col], "model": float(wire.unnum(m[col]))})
            if oracles.warn_tokens(g["warn"]) != oracles.warn_tokens(" ".join(m["warn"])):
                ctx.corr(desc, "rail_rep: Warnings", {"row": k, "impl": g["warn"], "model": m["warn"]})
    oracles.o_c08(ctx, desc, obs, rails, kw)
    return False


def run(ctx):
    from ..check import load_known
    for k in load_known():
        if k["property"] == "C08" and k.get("status") == "open" and "witness_desc" in k:
            one(ctx, k["witness_desc"])
    # scripted twins (no random draw): two components on one rail whose report cells are identical in every column - a rail sums its
    # members, it does not de-duplicate them (seeded change C08-K); also twins that differ in the name only next to a third member
    for twin in TWINS:
        one(ctx, twin, {"vtol": 1e-10, "itol": 1e-10})
    n, skipped = ctx.n(200, 5000), 0
    for _ in range(n):
        kw = {"vtol": 1e-10, "itol": 1e-10} if ctx.rng.random() < 0.6 else {}       # also the default tolerances
        if ctx.rng.random() < 0.5:
            kw["ta"] = float("%.3g" % ctx.rng.uniform(-40, 140))     # peak-temperature limits make the warnings depend on ta
        if ctx.rng.random() < 0.15:
            # tags label a sweep; they are documented for solve() and accepted by rail_rep() ("same parameters as solve()").  Whatever a
            # tag is called - a sweep variable, or by coincidence like a column of the RAIL report - no computed cell may change
            kw["tags"] = {ctx.rng.choice(["Vbat", "Voltage (V)", "Current (A)", "Rail", "run", "Temp"]): ctx.rng.choice([3.6, 1, "a", 0.0])}
        skipped += bool(one(ctx, gen_fn(ctx.rng), kw))
    if skipped > 0.2 * n:
        raise RuntimeError("too many unbuildable cases")


def search(ctx):
    for _ in range(ctx.n(400, 3000)):
        one(ctx, gen_fn(ctx.rng))


def replay(ctx, data):
    one(ctx, data["case"])
