"""C19 — diagrams show exactly the system; heat colours and labels follow the losses.

Observable: Graphviz's own structured output of `make_diag(fname="*.json")` / `make_hdiag(fname="*.json")`
(what `dot` understood of the graph pydot was handed), the caller's configuration dict before / after, and
`solve()` for the losses.  Correspondence: the structure `Model/Diagram.diag` computes (driver command `diag`).
Oracle: the property's clauses evaluated on the Graphviz output against the system description and `solve()`,
without the model."""
import copy, json, math, os, re, shutil, tempfile, io, contextlib, warnings, concurrent.futures
from fractions import Fraction

from .. import gen, sysdesc, wire

CLAIM = True
LEVEL_TEXT = ("Theorems (Lean 4) about the executable model of `_diag` (the clusters / nodes / edges / attribute dictionaries "
              "handed to pydot, for the code after the fixes 26e3f60, e71248f, f2aec6f, c0d57b9): node names are a permutation "
              "of the component names plus a legend with a provably fresh name iff heat; the edge list is the parent->child "
              "list; cluster membership = non-empty group (none when grouping is off); attribute precedence default -> class "
              "name -> component name (label = name when no level gives one), then the three heat overrides; the clamped mix "
              "is monotone in the loss WITHOUT any assumption on the losses, 1 at the maximum (exactly #ff1210), 0 at zero loss "
              "(exactly #2120ff), channel-wise monotone colour, `_gcolor` never raises; legend = nice(max); for EVERY positive "
              "value the number `_nice_float` shows is within half a unit of the third significant digit (round-half-even "
              "model of `'{:e}'`, `round`, `%.2e`, incl. the band just below a power of ten); label loss = duration-weighted "
              "mean; the quoted identifier `_q(name)` is read back by Graphviz' lexer as `name` for every name DOT can "
              "express (names with : \" < > { } |, DOT keywords, `Scale`, ...).  Tied to the code on every run: each diagram "
              "is produced by the real make_diag/make_hdiag, parsed from Graphviz's JSON output and compared node by node, "
              "attribute by attribute, label string by label string with the model; the caller's config is deep-compared "
              "before/after.  Partial: a name with an odd run of backslashes directly before a double quote or at its end "
              "cannot be written in DOT (finding F23f: `nodes_exact_rendered_partial` excludes exactly those names, "
              "`c19_nodes_full_fails` keeps the witness; the same holds for a group name, whose cluster identifier is quoted "
              "the same way since c7c5e36: `cluster_rendered_partial`).")
LEVEL_NOTE = ("pydot's handling of *attribute values* and of cluster names and Graphviz' anonymisation of identifiers starting "
              "with '%' are outside the model (such nodes are identified through their explicit label); "
              "`config_unchanged` is true by construction in the pure model - the no-mutation claim rests on the before/after "
              "comparison of the real dict; float rounding inside `_gcolor` / `_nice_float` is modelled on exact rationals, "
              "and at a rounding tie (1e-6) colours / digits are compared numerically instead of as strings.")
MODULE = "SysLoss.Props.C19"
THEOREMS = ["SysLoss.C19." + t for t in (
    "nodes_exact", "nodes_nodup", "edges_exact", "clusters_on", "clusters_off", "clusters",
    "override_precedence", "cluster_precedence", "heat_overrides", "config_unchanged", "config_empty_is_default",
    "legend_fresh", "heat_order", "mix_order", "heat_max_warm", "heat_zero_cold", "heat_colour_order", "colour_warm",
    "colour_cold", "heat_colour_defined", "clamp_id", "legend_label", "no_legend", "nice_float_3sig", "decade_bounds",
    "nice_float_si_range", "heat_loss_weighted", "heat_label_loss", "renderedId_of_no_backslash",
    "nodes_exact_rendered_partial", "edges_rendered_partial", "cluster_rendered_partial", "c19_nodes_full_fails",
    # Props/C19Order: the diagram does not depend on the order in which components / links / loss rows are listed
    "diag_order_free", "diag_order_free_heat", "heatSame_of_perm", "diag_order_free_rows", "diag_order_free_ok", "diag_node_attrs_order_free",
    "diag_nodes_perm", "diag_edges_perm", "legend_order_free", "freshScale_congr", "maxOf_congr", "maxOf_perm", "error_order_dependent")]
MODULES = ["SysLoss.Props.C19", "SysLoss.Props.C19Order"]
RULE = ("random power trees from gen.gen_system (<=24 nodes, groups, rails, PMux, load phases) with component / group / "
        "system names drawn from an alphabet with spaces, digits, punctuation, : \" < > { } | \\ and unicode (plus DOT keywords, "
        "`Scale`, leading %, class names, `default`), rendered by make_diag and "
        "make_hdiag to Graphviz JSON with a random configuration (overrides at default / class / name level incl. unknown "
        "keys, rankdir, occasionally a missing section or a clashing 'label'), grouping on/off; one case = one diagram; "
        "non-trivial = rendered, >= 3 components; distinct by (description, config, group, mode); a separate stream uses "
        "component / group names DOT cannot express (odd backslash run) and names that look already quoted; the "
        "witnesses of the repaired findings F23-F23e, F23g, F30 are replayed as regression cases (corpus/C19)")
ASSUMPTIONS = ["IEEE rounding is outside the model: colours and label digits are compared as strings and, within 1e-6 of a "
               "rounding tie of the exact rational value, numerically (both must be correct roundings)",
               "Graphviz `dot -Tjson` reports the graph it parsed faithfully (it is the observation instrument)"]
EXPLANATION = ("theorems: SysLoss.Props.C19 about Model/Diagram.diag; correspondence: Graphviz JSON of every generated diagram "
               "vs the model's clusters/nodes/edges/attributes/labels/colours and the configuration after the call; oracle: "
               "the property's clauses (one node per component, one edge per link, cluster membership, precedence, colour "
               "order, warm/cold ends, 3-significant-digit labels of the duration-weighted loss, legend maximum, config "
               "deep-equal) on the same output without the model")
TRUSTED = ["Graphviz dot -Tjson (observation instrument)"]

CLASSNAME = {"source": "Source", "pload": "PLoad", "iload": "ILoad", "rload": "RLoad", "rloss": "RLoss",
             "vloss": "VLoss", "converter": "Converter", "linreg": "LinReg", "pswitch": "PSwitch", "pmux": "PMux",
             "rectifier": "Rectifier"}
COLD, WARM = "#2120ff", "#ff1210"
GV_AUTO = {"name", "pos", "height", "width", "rects", "bb", "lp", "lheight", "lwidth", "nodes", "edges", "subgraphs",
           "xdotversion", "directed", "strict", "objects", "tail", "head", "samehead", "sametail"}
SI = {"p": -12, "n": -9, "u": -6, "m": -3, "": 0, "k": 3, "M": 6}

# ---------------------------------------------------------------------------------------------------
# generators

ALPHA = list("abcdefghijklmnopqrstuvwxyzABCDEFGHIJKLMNOPQRSTUVWXYZ0123456789") + \
    list("  __--..++##$$&&''()[]=,;/*!?@~^%") + list("::\"<>{}|\\") + list("éüßøΩµλж中日√±°")
SPECIAL_NAMES = ["default", "cluster_G", "sysLoss", "node", "edge", "graph", "Node", "GRAPH", "subgraph", "strict",
                 "Scale", "Scale_", "%RH", "%", "%3", "A:x", "A:y", "Boost:5V", "A:", "rail::", ":A", 'a"b', '5" pipe', '"',
                 "a\nb", "{x}", "a|b", "<", ">", "a<b>", "x\\\\", "p\\q", "\\N", "12", "1.5", "-3"]
COLORS = ["coral", "deeppink", "aquamarine", "gray80", "#a0b0c0", "darkorchid1", "white", "darkturquoise", "yellow"]
NODE_POOL = {"fillcolor": COLORS, "color": COLORS, "fontcolor": ["black", "navy", "gray20"],
             "shape": ["box", "oval", "octagon", "circle", "hexagon", "ellipse", "house"],
             "style": ["filled", "filled,rounded", "filled,dashed", "rounded,filled", "filled,bold"],
             "penwidth": ["0.5", "1.5", "3", "2.25"], "fontname": ["arial", "helvetica", "courier"],
             "fontsize": ["8", "11", "14"], "margin": ["0.05", "0.2,0.1"], "label": ["custom lbl", "X", "a\\lb", "", ""],
             "tooltip": ["tip 1", "t"], "zzcustom": ["some value", "v2"], "x_note": ["v 1", "é"]}
CLUSTER_POOL = {"fillcolor": COLORS, "color": COLORS, "style": ["filled", "filled,rounded", "dashed"],
                "penwidth": ["0.5", "1.5", "3"], "fontname": ["arial", "courier"], "fontcolor": ["black", "navy"],
                "rank": ["same", "min"], "labeljust": ["l", "r"], "c_key": ["q", "some text"]}
GRAPH_POOL = {"ranksep": ["0.3 equally", "0.5", "1.0"], "splines": ["line", "true", "polyline"],
              "nodesep": ["0.3", "0.6"], "dpi": ["120", "72"], "fontname": ["arial", "courier"],
              "fontcolor": ["black", "navy"], "bgcolor": ["white", "lightyellow"], "labelloc": ["t", "b"],
              "my_key": ["g v", "1"]}
EDGE_POOL = {"arrowhead": ["none", "normal", "dot"], "color": ["black", "gray40", "red"],
             "penwidth": ["1", "2.5"], "style": ["solid", "dashed"], "e_key": ["e v"]}


def dot_ok(n):
    """DOT can write `n` as a quoted identifier: no odd run of backslashes directly before a `\"` or at the end
    (Python twin of `Diagram.nameOk`)"""
    run = 0
    for ch in n:
        if ch == "\\":
            run += 1
            continue
        if ch == '"' and run % 2 == 1:
            return False
        run = 0
    return run % 2 == 0


def looks_quoted(n):
    """pydot passes *attribute values* of the form "…" or <…> through un-quoted (already quoted / HTML), so the explicit
    plain-diagram label of such a name is shown without its quotes / brackets: kept to a side stream"""
    return len(n) >= 2 and ((n[0] == '"' and n[-1] == '"') or (n[0] == "<" and n[-1] == ">"))


def rname(rng, used, lo=1, hi=9, alpha=ALPHA):
    """a fresh name: anything from the alphabet (incl. : \" < > { } | \\ and a leading %) that DOT can express"""
    while True:
        n = "".join(rng.choice(alpha) for _ in range(rng.randint(lo, hi))).strip()
        if not n or n in used or not dot_ok(n) or looks_quoted(n):
            continue
        used.add(n)
        return n


def rename(rng, desc, special=0.12):
    """replace the generator's names (S1, P1, …), group names and the system name; some components get a name that
    is a class name, `default`, a DOT keyword, `Scale`, starts with `%`, contains `:` or `\"` …"""
    used = set(c["rail"] for c in desc["comps"] if c.get("rail"))
    mp = {}
    for c in desc["comps"]:
        if rng.random() < special:
            cand = rng.choice(list(CLASSNAME.values()) + SPECIAL_NAMES)
            if cand not in used:
                used.add(cand)
                mp[c["name"]] = cand
                continue
        mp[c["name"]] = rname(rng, used)
    if rng.random() < 0.07 and "Scale" not in used and "Scale" not in mp.values():
        # a component that carries the heat-scale legend's own name AND sits in a group (a cluster): the legend must still be a node of its own
        c = rng.choice(desc["comps"])
        mp[c["name"]] = "Scale"
        if not c.get("group"):
            c["group"] = "G1"
    gused = set()
    gmap = {}
    for g in ("G1", "G2", "G3", "G4"):           # group names: the same alphabet, plus a few particular ones
        cand = rname(rng, gused, 1, 7) if rng.random() < 0.8 else \
            rng.choice(["default", "node", "graph", "%g", "{a|b}", "a:b", "a:c", 'g"1', "rail: 5V", "cluster_x", "x\\\\"])
        gmap[g] = cand if cand not in gmap.values() else rname(rng, gused, 1, 7)
    for c in desc["comps"]:
        c["name"] = mp[c["name"]]
        c["parents"] = [mp.get(p, p) for p in c["parents"]]
        if c.get("group"):
            c["group"] = gmap[c["group"]]
    det = desc.get("_build", {}).get("detour")
    if det:                                       # the generator's "added late" leaf and its decoy host
        det["x"], det["decoy_parent"] = mp.get(det["x"], det["x"]), mp.get(det["decoy_parent"], det["decoy_parent"])
    rt = desc.get("_build", {}).get("retouch")
    if rt:                                        # the component that is given a decoy phase configuration and replaced by itself
        rt["x"] = mp.get(rt["x"], rt["x"])
    br = desc.get("_build", {}).get("bridge")
    if br:                                        # the link that is first built through a temporary stage
        br["child"] = mp.get(br["child"], br["child"])
    while True:
        desc["name"] = rname(rng, set(), 1, 12)
        if not desc["name"].endswith("\\"):
            break
    return desc


def pick(rng, pool, lo=1, hi=3):
    ks = rng.sample(sorted(pool), rng.randint(lo, min(hi, len(pool))))
    return {k: rng.choice(pool[k]) for k in ks}


def gen_config(rng, desc, malformed_cfg=0.06):
    """{} or a modified copy of the defaults: overrides at the three levels incl. unknown keys"""
    if rng.random() < 0.15:
        return {}
    from sysloss.diagram import get_conf
    cfg = get_conf()
    cfg["graph"]["rankdir"] = rng.choice(["TB", "BT", "LR", "RL"])
    if rng.random() < 0.4:
        cfg["graph"].update(pick(rng, GRAPH_POOL))
    if rng.random() < 0.4:
        cfg["edge"].update(pick(rng, EDGE_POOL))
    if rng.random() < 0.4:
        cfg["node"]["default"].update(pick(rng, {k: v for k, v in NODE_POOL.items() if k != "label"}))
    if rng.random() < 0.2:
        del cfg["node"]["default"][rng.choice(sorted(cfg["node"]["default"]))]
    kinds = sorted(set(CLASSNAME[c["kind"]] for c in desc["comps"]))
    for cls in kinds + ["Source", "PMux"]:
        if rng.random() < 0.45:
            cfg["node"][cls] = pick(rng, {k: v for k, v in NODE_POOL.items() if k != "label"})
    names = [c["name"] for c in desc["comps"]]
    for n in rng.sample(names, min(len(names), rng.randint(0, 4))) + (["no such component"] if rng.random() < 0.3 else []):
        if n != "default":
            # a node whose name starts with % is identified through its label (Graphviz anonymises the id)
            cfg["node"][n] = pick(rng, {k: v for k, v in NODE_POOL.items() if k != "label" or not n.startswith("%")}, 1, 4)
    if rng.random() < 0.35:
        # the order in which the caller's dict lists its entries (a name entry before the kind entry it refines, `default` last) is not
        # part of the configuration: precedence is default < kind < name whatever the insertion order
        items = list(cfg["node"].items())
        rng.shuffle(items)
        cfg["node"] = dict(items)
    if rng.random() < 0.4:
        cfg["cluster"]["default"].update(pick(rng, CLUSTER_POOL))
    groups = sorted(set(c.get("group", "") for c in desc["comps"]) - {"", "default"})
    for g in groups + (["no such group"] if rng.random() < 0.2 else []):
        if rng.random() < 0.5:
            cfg["cluster"][g] = pick(rng, CLUSTER_POOL)
    if rng.random() < 0.15:
        cfg["top level key"] = {"a": "1"}
    for c in desc["comps"]:
        if c["name"].startswith("%"):
            # identified through its default label only: no entry that applies to it may set one - an entry keyed by ANOTHER
            # component's name applies to it too when that name happens to be this component's class name ("Source", "Converter")
            for key in (c["name"], CLASSNAME[c["kind"]]):
                if isinstance(cfg["node"].get(key), dict):
                    cfg["node"][key].pop("label", None)
    r = rng.random()
    if r < malformed_cfg:            # a section the code needs is missing, or `label` clashes with a keyword argument
        what = rng.choice(["graph", "node", "edge", "cluster", "node.default", "cluster.default", "graph.rankdir",
                           "graph.label", "cluster.label"])
        if "." not in what:
            del cfg[what]
        elif what == "graph.label":
            cfg["graph"]["label"] = "mine"
        elif what == "cluster.label":
            cfg["cluster"]["default"]["label"] = "mine"
        else:
            a, b = what.split(".")
            cfg[a].pop(b, None)
    return cfg


def gen_big(rng):
    """losses from milliwatts up to beyond 1e8 W, so that every branch of the label formatter (plain, m/u/n, k, M, %.2e) is met"""
    comps = [{"name": "S1", "kind": "source", "args": {"vo": 1.0}, "parents": []}]
    vmax = 0.0
    for k in range(rng.randint(1, 4)):
        i = float(rng.choice([1e-3, 0.25, 10.0, 1e3, 3e4]))
        r = float(rng.choice([1e-3, 0.37, 12.5, 999.0]))
        vmax = max(vmax, r * i)
        comps.append({"name": "RL%d" % k, "kind": "rloss", "args": {"rs": r}, "parents": ["S1"], "group": rng.choice(["", "G1"])})
        comps.append({"name": "I%d" % k, "kind": "iload", "args": {"ii": i}, "parents": ["RL%d" % k]})
    comps[0]["args"]["vo"] = float("%.3g" % (vmax * rng.choice([1.5, 4.0, 10.0]) + 1.0))
    return {"name": "sys", "comps": comps, "phases": {}}


def gen_case(rng, malformed=None):
    if malformed is None and rng.random() < 0.08:
        desc = gen_big(rng)
    else:
        desc = gen.gen_system(rng, max_nodes=rng.choice([6, 12, 24]), p_group=rng.choice([0.0, 0.3, 0.6, 0.9]),
                              p_rail=0.1, phases=0.5, p_mux=0.4, p_moved=0.0)
    rename(rng, desc)
    if malformed is not None:
        bad_names(rng, desc, malformed)
    cfg = gen_config(rng, desc, malformed_cfg=0.0 if malformed else 0.06)
    return {"desc": desc, "config": cfg, "group": rng.random() < 0.7, "malformed": malformed}


# names that still do not come out as themselves (the separate, "malformed" stream)
BAD_CLASSES = ("backslash", "group_backslash", "prequoted")


def bad_names(rng, desc, cls):
    comps = desc["comps"]
    old = [c["name"] for c in comps]
    k = rng.randrange(len(comps))
    new = {}
    if cls == "backslash":            # DOT cannot express these (finding F23f)
        new[old[k]] = rng.choice(["a\\", 'b\\"c', "x\\\\\\", "\\"])
    elif cls == "prequoted":          # the node is right; only the plain label loses its quotes / brackets
        new[old[k]] = rng.choice(['"ab"', "<ab>", '"x y"', "<b>"])
    elif cls == "group_backslash":    # the same for a group name (cluster identifier)
        g = rng.choice(["a\\", 'b\\"c', "\\"])
        for c in rng.sample(comps, min(len(comps), rng.randint(1, 3))):
            c["group"] = g
    taken = set(old)
    for o, n in list(new.items()):
        if n in taken:
            del new[o]
        taken.add(n)
    for c in comps:
        c["name"] = new.get(c["name"], c["name"])
        c["parents"] = [new.get(p, p) for p in c["parents"]]
    det = desc.get("_build", {}).get("detour")
    if det:
        det["x"], det["decoy_parent"] = new.get(det["x"], det["x"]), new.get(det["decoy_parent"], det["decoy_parent"])
    rt = desc.get("_build", {}).get("retouch")
    if rt:
        rt["x"] = new.get(rt["x"], rt["x"])
    br = desc.get("_build", {}).get("bridge")
    if br:
        br["child"] = new.get(br["child"], br["child"])
    return desc


def name_class(n):
    """which (if any) class of component names still does not come out as itself"""
    if not dot_ok(n):
        return "backslash"
    if looks_quoted(n):
        return "prequoted"
    return None


def case_class(desc):
    cl = set(filter(None, (name_class(c["name"]) for c in desc["comps"])))
    if any(not dot_ok(c.get("group", "")) for c in desc["comps"]):
        cl.add("backslash")
    cl = sorted(cl)
    return cl[0] if cl else None


# ---------------------------------------------------------------------------------------------------
# driving the implementation (runs in worker processes)

def strip_gv(o):
    return {k: v for k, v in o.items() if not k.startswith("_")}


def parse_gv(path):
    """Graphviz JSON: `objects` = the subgraphs (the first `_subgraph_cnt`) followed by the nodes, `_gvid` = index"""
    j = json.load(open(path, encoding="utf-8"))
    objs = j.get("objects", [])
    cnt = j.get("_subgraph_cnt", 0)
    byid = {o["_gvid"]: o["name"] for o in objs[cnt:]}
    nodes = [strip_gv(o) for o in objs[cnt:]]
    clusters = [{"name": o["name"], "attrs": {k: v for k, v in strip_gv(o).items() if k not in ("nodes", "edges", "subgraphs")},
                 "members": [byid.get(g, "?%s" % g) for g in o.get("nodes", [])]} for o in objs[:cnt]]
    edges = [dict(strip_gv(e), tail=byid.get(e["tail"], "?"), head=byid.get(e["head"], "?")) for e in j.get("edges", [])]
    root = {k: v for k, v in j.items() if k not in ("objects", "edges") and not k.startswith("_")}
    return {"root": root, "clusters": clusters, "nodes": nodes, "edges": edges}


def exc_name(e, captured=""):
    """exception class; pydot's AssertionError for a failing `dot` is split into a DOT syntax error (what was
    written is not the graph that was meant: `render-error`) and a failure of Graphviz' own layout code on a
    well-formed file (`graphviz-failure`: not the subject's business, skipped and counted)"""
    n = type(e).__name__
    if n == "AssertionError" and "returned code" in str(e):
        return "render-error" if "syntax error" in captured else "graphviz-failure"
    return n


def captured_call(f, *a, **k):
    buf = io.StringIO()
    with warnings.catch_warnings():
        warnings.simplefilter("ignore")
        with contextlib.redirect_stdout(buf), contextlib.redirect_stderr(buf):
            try:
                return f(*a, **k), None, buf.getvalue()
            except Exception as e:  # noqa
                return None, e, buf.getvalue()


def observe_case(args):
    """build the system, solve it, render plain + heat diagram to Graphviz JSON; returns plain data"""
    case, tmpdir, idx = args
    warnings.filterwarnings("ignore")
    from sysloss.diagram import make_diag, make_hdiag
    out = {"idx": idx, "build_err": None, "solve_err": None, "loss": None, "plain": None, "heat": None}
    sys_, e = sysdesc.quiet_call(sysdesc.build, case["desc"])
    if e is not None:
        out["build_err"] = repr(e)[:200]
        return out
    df, e = sysdesc.quiet_call(sys_.solve)
    if e is not None:
        out["solve_err"] = sysdesc.exc_class(e)
    else:
        obs = sysdesc.observe(df)
        ph = sys_.get_sys_phases()
        out["loss"] = {"phases": [[k, float(v)] for k, v in ph.items()],
                       "rows": [r["name"] for r in obs["phases"][0]["rows"]],
                       "byphase": [[p["phase"], [[r["name"], r["loss"]] for r in p["rows"]]] for p in obs["phases"]]}
    for mode, fn in (("plain", make_diag), ("heat", make_hdiag)):
        if mode == "heat" and out["solve_err"] is not None:
            continue
        cfg = copy.deepcopy(case["config"])
        before = copy.deepcopy(cfg)
        path = os.path.join(tmpdir, "%d_%s.json" % (idx, mode))
        res, e, cap = captured_call(fn, sys_, fname=path, group=case["group"], config=cfg)
        rec = {"exc": None if e is None else exc_name(e, cap), "detail": None if e is None else (str(e) + " | " + cap)[-400:],
               "ret_none": res is None, "cfg_same": cfg == before, "cfg_after": cfg if cfg != before else None, "gv": None}
        if e is None:
            try:
                rec["gv"] = parse_gv(path)
            except Exception as pe:  # noqa
                rec["exc"], rec["detail"] = "unparsable-output", repr(pe)[:200]
        if os.path.exists(path):
            os.remove(path)
        out[mode] = rec
    return out


# ---------------------------------------------------------------------------------------------------
# model side

def cfg_wire(cfg):
    def pairs(d):
        return [[str(k), v] for k, v in d.items()]

    def sect(d):
        return [[str(k), pairs(v)] for k, v in d.items()]
    return {"graph": pairs(cfg["graph"]) if "graph" in cfg else None,
            "cluster": sect(cfg["cluster"]) if "cluster" in cfg else None,
            "node": sect(cfg["node"]) if "node" in cfg else None,
            "edge": pairs(cfg["edge"]) if "edge" in cfg else None,
            "other": [k for k in cfg if k not in ("graph", "cluster", "node", "edge")]}


def cfg_unwire(w, orig):
    """model's `config_after` back to a dict (unknown top-level keys are taken from the original)"""
    out = {}
    for k in orig:
        if k == "graph" and w["graph"] is not None:
            out[k] = dict(w["graph"])
        elif k == "edge" and w["edge"] is not None:
            out[k] = dict(w["edge"])
        elif k in ("cluster", "node") and w[k] is not None:
            out[k] = {n: dict(p) for n, p in w[k]}
        elif k in w["other"]:
            out[k] = orig[k]
    return out


def edges_of(desc):
    owner = {c["rail"]: c["name"] for c in desc["comps"] if c.get("rail")}
    return [[owner.get(p, p), c["name"]] for c in desc["comps"] for p in c["parents"]]


def nodes_order(desc):
    """`attrs["nodes"]` insertion order: list order, a leaf the build plan adds late comes last (sysdesc.build)"""
    det = desc.get("_build", {}).get("detour")
    comps = desc["comps"]
    if det:
        comps = [c for c in comps if c["name"] != det["x"]] + [c for c in comps if c["name"] == det["x"]]
    rt = desc.get("_build", {}).get("retouch")
    if rt:            # change_comp() re-inserts the name: it moves to the end of the registry
        comps = [c for c in comps if c["name"] != rt["x"]] + [c for c in comps if c["name"] == rt["x"]]
    return comps


def ask_model(drv, case, mode, loss):
    desc = case["desc"]
    heat = None
    if mode == "heat":
        rows = loss["rows"]
        heat = {"rows": rows, "phases": [[k, wire.num(v)] for k, v in loss["phases"]],
                "loss": [[wire.num(dict(r)[n]) for n in rows] for _, r in loss["byphase"]]}
    return drv.ask({"cmd": "diag", "carrier": "rat", "name": desc.get("name", "sys"), "group": case["group"],
                    "comps": [{"name": c["name"], "kind": c["kind"], "group": c.get("group", "")} for c in nodes_order(desc)],
                    "edges": edges_of(desc), "config": cfg_wire(case["config"]), "heat": heat})


def gvs(s):
    """a model attribute value as Graphviz reports it (pydot writes a newline as the two characters \\n)"""
    return s.replace("\n", "\\n").replace("\r", "\\r")


def parse_hex(c):
    return tuple(int(c[i:i + 2], 16) for i in (1, 3, 5)) if re.fullmatch(r"#[0-9a-f]{6}", c or "") else None


def exact_channels(mix):
    return (33 + 222 * mix, 32 - 14 * mix, 255 - 239 * mix)


def parse_nice(s):
    """'<decimal><prefix>' or '%.2e' form -> Fraction (None if it is neither)"""
    m = re.fullmatch(r"(-?\d+\.\d+)([pnumkM]?)", s)
    if m:
        return Fraction(m.group(1)) * Fraction(10) ** SI[m.group(2)]
    m = re.fullmatch(r"(-?\d\.\d\d)e([+-]\d\d+)", s)
    if m:
        return Fraction(m.group(1)) * Fraction(10) ** int(m.group(2))
    return None


def decade(x):
    d = math.floor(math.log10(float(x)))
    while Fraction(10) ** d > x:
        d -= 1
    while Fraction(10) ** (d + 1) <= x:
        d += 1
    return d


def within_3sig(shown, loss, slack=Fraction(1, 10 ** 6)):
    """|shown − loss| ≤ half a unit of the third significant digit of `loss` (a hair of float slack)"""
    if loss == 0:
        return shown == 0
    a = abs(loss)
    return abs(shown - loss) <= (Fraction(1, 2) + slack) * Fraction(10) ** (decade(a) - 2)


def label_value(label, name):
    """the '<nice>' of a heat label '<name>\\n<nice>W' as Graphviz reports it"""
    pre = gvs(name) + "\\n"
    if not label.startswith(pre) or not label.endswith("W"):
        return None
    return label[len(pre):-1]


def correspond(ctx, case, mode, rec, model, cid):
    """model vs implementation, on everything the model says"""
    def bad(rel, detail):
        ctx.corr(cid, "diagram(%s): %s" % (mode, rel), detail)

    if "bad-op" in model:
        bad("driver rejects the description", model)
        return
    # configuration after the call
    after = cfg_unwire(model["config_after"], case["config"])
    impl_after = case["config"] if rec["cfg_same"] else rec["cfg_after"]
    if after != impl_after:
        bad("configuration after the call", {"impl": impl_after, "model": after})
    if not model["ok"]:
        if rec["exc"] != model["err"]["cls"]:
            bad("exception class", {"impl": rec["exc"], "impl_detail": rec["detail"], "model": model["err"]})
        return
    if rec["exc"] is not None:
        bad("exception class", {"impl": rec["exc"], "impl_detail": rec["detail"], "model": "ok"})
        return
    gv, g = rec["gv"], model["graph"]
    heat = {r["name"]: r for r in (model["heat"] or [])}
    sname = g["scale"]["name"] if g["scale"] is not None else None

    def cmp_attrs(what, mattrs, oattrs, extra_ok=()):
        for k, v in mattrs:
            if k in ("fillcolor", "label") and what.startswith("node ") and mode == "heat" and \
                    (what != "node %s" % sname or k == "label"):
                continue                      # compared below with the tie rule
            if oattrs.get(k) != gvs(v):
                bad("attribute value", {"of": what, "key": k, "impl": oattrs.get(k), "model": gvs(v)})
        mk = {k for k, _ in mattrs}
        for k, v in oattrs.items():
            if k in mk or k in GV_AUTO or v == "" or (k == "label" and v == "\\N"):
                continue
            if k in extra_ok and extra_ok[k] == v:
                continue
            bad("attribute the model does not have", {"of": what, "key": k, "impl": v})

    cmp_attrs("graph", g["attrs"], gv["root"])
    # nodes
    mnodes = {}
    for c in g["clusters"]:
        for n in c["nodes"]:
            mnodes[n["name"]] = n
    for n in g["nodes"]:
        mnodes[n["name"]] = n
    if g["scale"] is not None:
        mnodes[g["scale"]["name"]] = g["scale"]
    onodes = {n["name"]: n for n in gv["nodes"]}
    if sorted(onodes) != sorted(mnodes) or len(gv["nodes"]) != len(onodes):
        bad("node set", {"impl": sorted(onodes), "model": sorted(mnodes)})
        return
    for name, mn in mnodes.items():
        on = onodes[name]
        cmp_attrs("node " + name, mn["attrs"], on)
        if mode == "heat" and mn is g["scale"]:
            ml = gvs(dict(mn["attrs"])["label"])
            if on.get("label") != ml:
                pat = r"(\{?)(.*?)W\|  \|  \| 0W(\}?)"
                mo, mm = re.fullmatch(pat, on.get("label", "")), re.fullmatch(pat, ml)
                ov = None if mo is None else parse_nice(mo.group(2))
                if ov is None or (mo.group(1), mo.group(3)) != (mm.group(1), mm.group(3)) or \
                        ov == parse_nice(mm.group(2)) or not within_3sig(ov, wire.unnum(model["maxloss"])):
                    bad("legend label", {"impl": on.get("label"), "model": ml})
                else:
                    ctx.stats["tie:label compared numerically"] += 1
        if mode == "heat" and name in heat and mn is not g["scale"]:
            ma = dict(mn["attrs"])
            mix, loss = wire.unnum(heat[name]["mix"]), wire.unnum(heat[name]["loss"])
            if on.get("fillcolor") != ma["fillcolor"]:
                oc, ex = parse_hex(on.get("fillcolor")), exact_channels(min(max(mix, 0), 1))
                if oc is None or any(abs(o - e) > Fraction(1, 2) + Fraction(1, 10 ** 6) for o, e in zip(oc, ex)):
                    bad("heat colour", {"node": name, "impl": on.get("fillcolor"), "model": ma["fillcolor"], "mix": float(mix)})
                else:
                    ctx.stats["tie:colour compared numerically"] += 1
            if on.get("label") != gvs(ma["label"]):
                ov = label_value(on.get("label", ""), name)
                ov = None if ov is None else parse_nice(ov)
                mv = parse_nice(heat[name]["nice"])
                # a different string is tolerated only at a rounding tie: another *value*, also a correct rounding
                if ov is None or ov == mv or not within_3sig(ov, loss):
                    bad("heat label", {"node": name, "impl": on.get("label"), "model": gvs(ma["label"]), "loss": float(loss)})
                else:
                    ctx.stats["tie:label compared numerically"] += 1
    # clusters
    oc = {c["name"]: c for c in gv["clusters"]}
    mc = {c["name"]: c for c in g["clusters"]}
    if sorted(oc) != sorted(mc):
        bad("cluster set", {"impl": sorted(oc), "model": sorted(mc)})
    else:
        for name, c in mc.items():
            if sorted(oc[name]["members"]) != sorted(n["name"] for n in c["nodes"]):
                bad("cluster members", {"cluster": name, "impl": sorted(oc[name]["members"]),
                                        "model": sorted(n["name"] for n in c["nodes"])})
            cmp_attrs("cluster " + name, [["label", c["label"]]] + c["attrs"], oc[name]["attrs"], extra_ok=gv["root"])
    # edges
    oe = sorted((e["tail"], e["head"]) for e in gv["edges"])
    me = sorted((e["src"], e["dst"]) for e in g["edges"])
    if oe != me:
        bad("edge list", {"impl": oe, "model": me})
    else:
        for e in gv["edges"]:
            ma = g["edges"][0]["attrs"]
            cmp_attrs("edge %s->%s" % (e["tail"], e["head"]), ma, {k: v for k, v in e.items() if k not in ("tail", "head")})


def deanonymise(gv, mode):
    """Graphviz stores identifiers that start with `%` as anonymous nodes and reports them as `%<n>`; such a node is
    identified by the name its explicit label shows (plain: the label; heat: the label up to the loss line)"""
    ren = {}
    for n in gv["nodes"]:
        if n["name"].startswith("%"):
            lab = n.get("label")
            if lab is None or lab == "\\N":
                continue
            ren[n["name"]] = lab[:lab.rfind("\\n")] if (mode == "heat" and "\\n" in lab) else lab
    if not ren or len(set(ren.values())) != len(ren):
        return gv
    for n in gv["nodes"]:
        n["name"] = ren.get(n["name"], n["name"])
    for c in gv["clusters"]:
        c["members"] = [ren.get(m, m) for m in c["members"]]
    for e in gv["edges"]:
        e["tail"], e["head"] = ren.get(e["tail"], e["tail"]), ren.get(e["head"], e["head"])
    return gv


def legend_name(names):
    s = "Scale"
    while s in names:
        s += "_"
    return s


# ---------------------------------------------------------------------------------------------------
# oracle: the property's statement on the implementation's observables (no model)

def weighted_losses(loss):
    """duration-weighted mean loss per component, exactly, from solve()'s rows"""
    ph = loss["phases"]
    if not ph:
        return {n: Fraction(l) for n, l in loss["byphase"][0][1]}
    dur = {k: Fraction(v) for k, v in ph}
    tot = sum(dur.values())
    acc = {}
    for pname, rows in loss["byphase"]:
        for n, l in rows:
            acc[n] = acc.get(n, Fraction(0)) + dur[pname] * Fraction(l)
    return {n: v / tot for n, v in acc.items()}


def oracle(ctx, case, mode, rec, loss, cid, first_only=False):
    desc, cfg, gv = case["desc"], case["config"], rec["gv"]
    cls = case_class(desc)
    trig = {"name_class": cls or "plain"}
    wl = weighted_losses(loss) if (mode == "heat" and loss is not None) else None
    if wl is not None and any(v < 0 for v in wl.values()):
        trig["negative_loss"] = True
    fails = []

    def fail(clause, detail, **extra):
        fails.append((clause, detail, extra))

    names = [c["name"] for c in desc["comps"]]
    if not rec["cfg_same"]:
        fail("config_unchanged", {"after": rec["cfg_after"], "before": cfg})
    if rec["exc"] is not None:
        fail("renders", {"exception": rec["exc"], "detail": rec["detail"]}, exception=rec["exc"])
    else:
        legend = legend_name(names)
        want_nodes = sorted(names + ([legend] if mode == "heat" else []))
        got_nodes = sorted(n["name"] for n in gv["nodes"])
        onodes = {n["name"]: n for n in gv["nodes"]}
        if got_nodes != want_nodes:
            fail("nodes_exact", {"nodes": got_nodes, "components(+legend)": want_nodes})
        want_edges = sorted((a, b) for a, b in edges_of(desc))
        got_edges = sorted((e["tail"], e["head"]) for e in gv["edges"])
        if got_edges != want_edges:
            fail("edges_exact", {"edges": got_edges, "links": want_edges})
        # clusters
        groups = {}
        for c in desc["comps"]:
            if c.get("group", "") != "" and case["group"]:
                groups.setdefault("cluster_" + c["group"], []).append(c["name"])
        got_cl = {c["name"]: sorted(c["members"]) for c in gv["clusters"]}
        if got_cl != {k: sorted(v) for k, v in groups.items()}:
            fail("clusters", {"clusters": got_cl, "groups": groups, "grouping": case["group"]})
        # precedence (on the caller's own dict, or the documented defaults)
        from sysloss.diagram import get_conf
        eff = get_conf() if cfg == {} else cfg
        nsect = eff.get("node", {})
        for c in desc["comps"]:
            on = onodes.get(c["name"])
            if on is None:
                continue
            levels = [nsect.get("default", {}), nsect.get(CLASSNAME[c["kind"]], {}), nsect.get(c["name"], {})]
            for k in set().union(*levels):
                if mode == "heat" and k in ("fillcolor", "fontcolor", "label"):
                    continue
                want = [lv[k] for lv in levels if k in lv][-1]
                if on.get(k) != gvs(want):
                    fail("override_precedence", {"node": c["name"], "key": k, "shown": on.get(k), "expected": want,
                                                 "levels(default,class,name)": [lv.get(k) for lv in levels]})
        csect = eff.get("cluster", {})
        for c in gv["clusters"]:
            g = c["name"][len("cluster_"):]
            levels = [csect.get("default", {}), csect.get(g, {})]
            for k in set().union(*levels):
                want = [lv[k] for lv in levels if k in lv][-1]
                if c["attrs"].get(k) != gvs(want):
                    fail("override_precedence", {"cluster": c["name"], "key": k, "shown": c["attrs"].get(k), "expected": want})
        # heat clauses (a loss that is negative by solver noise is drawn fully cold and labelled with its value)
        if wl is not None:
            if any(v < 0 for v in wl.values()):
                ctx.stats["heat: negative loss in solve()"] += 1
            mx = max(wl.values())
            cols = {}
            for n in names:
                on = onodes.get(n)
                if on is None:
                    continue
                col = parse_hex(on.get("fillcolor"))
                if col is None:
                    fail("heat_colour", {"node": n, "fillcolor": on.get("fillcolor"), "why": "not a heat colour"})
                    continue
                cols[n] = col
                if mx > 0 and wl[n] == mx and on.get("fillcolor") != WARM:
                    fail("heat_colour", {"node": n, "loss": float(wl[n]), "max": float(mx), "fillcolor": on.get("fillcolor"),
                                         "why": "largest loss is not fully warm"})
                if wl[n] == 0 and mx >= 0 and on.get("fillcolor") != COLD:
                    fail("heat_colour", {"node": n, "loss": 0.0, "fillcolor": on.get("fillcolor"),
                                         "why": "zero loss is not fully cold"})
                if on.get("fontcolor") is None:
                    fail("heat_colour", {"node": n, "why": "no fontcolor"})
                lv = label_value(on.get("label", ""), n)
                sv = None if lv is None else parse_nice(lv)
                if sv is None:
                    fail("heat_label", {"node": n, "label": on.get("label"), "why": "not '<name>\\n<value><SI prefix>W'"})
                elif not within_3sig(sv, wl[n]):
                    fail("heat_label", {"node": n, "label": on.get("label"), "weighted_loss": float(wl[n]),
                                        "why": "not within half a unit of the third significant digit"})
            order = sorted(cols, key=lambda n: wl[n])
            for a, b in zip(order, order[1:]):
                if wl[a] < wl[b] - abs(wl[b]) * Fraction(1, 10 ** 9):
                    ca, cb = cols[a], cols[b]
                    if not (ca[0] <= cb[0] and ca[1] >= cb[1] and ca[2] >= cb[2]):
                        fail("heat_colour", {"why": "colours not ordered as the losses", "a": a, "b": b,
                                             "loss_a": float(wl[a]), "loss_b": float(wl[b]), "col_a": ca, "col_b": cb})
            sc = onodes.get(legend)
            if sc is not None:
                m = re.fullmatch(r"\{?(.*?)W\|  \|  \| 0W\}?", sc.get("label", ""))
                sv = None if m is None else parse_nice(m.group(1))
                if sv is None or not within_3sig(sv, mx):
                    fail("legend", {"label": sc.get("label"), "max_loss": float(mx)})
    if first_only:
        prio = ["renders", "nodes_exact", "edges_exact", "clusters", "override_precedence", "heat_colour", "heat_label",
                "legend", "config_unchanged"]
        fails.sort(key=lambda f: prio.index(f[0]))
        fails = fails[:1]
    seen = set()
    for clause, detail, extra in fails:
        if clause in seen:
            continue                         # one record per clause and diagram
        seen.add(clause)
        ctx.oracle(cid, clause, "diagram", dict(trig, **extra), dict(detail, mode=mode, group=case["group"]))
    return fails


# ---------------------------------------------------------------------------------------------------
# the case loop

def case_id(case, mode):
    return {"desc": case["desc"], "config": case["config"], "group": case["group"], "mode": mode,
            "malformed": case.get("malformed")}


def run_batch(ctx, cases, malformed=False, workers=None):
    tmpdir = tempfile.mkdtemp(prefix="verif_c19_")
    try:
        args = [(c, tmpdir, i) for i, c in enumerate(cases)]
        if len(cases) <= 2:
            outs = [observe_case(a) for a in args]
        else:
            w = workers or min(14, max(2, (os.cpu_count() or 4) - 2))
            with concurrent.futures.ProcessPoolExecutor(max_workers=w) as ex:
                outs = list(ex.map(observe_case, args, chunksize=2))
    finally:
        shutil.rmtree(tmpdir, ignore_errors=True)
    skipped = gvfail = 0
    for case, out in zip(cases, outs):
        desc = case["desc"]
        if out["build_err"] is not None:
            skipped += 1
            ctx.case(nontrivial=False)
            if len(ctx.notes) < 10:
                ctx.notes.append("skipped (build): %s" % out["build_err"])
            continue
        if out["solve_err"] is not None:
            ctx.stats["solve:%s (heat diagram skipped)" % out["solve_err"]] += 1
        for mode in ("plain", "heat"):
            rec = out[mode]
            if rec is None:
                continue
            cid = case_id(case, mode)
            stream = "malformed:" + (case.get("malformed") or "") if malformed else "main"
            ctx.stats["stream:%s" % stream] += 1
            ctx.stats["mode:%s" % mode] += 1
            ctx.stats["group:%s" % ("on" if case["group"] else "off")] += 1
            ctx.stats["config:%s" % ("{}" if case["config"] == {} else "custom")] += 1
            ctx.stats["nodes:%s" % ("<=4" if len(desc["comps"]) <= 4 else "<=12" if len(desc["comps"]) <= 12 else ">12")] += 1
            ctx.stats["groups:%d" % len(set(c.get("group", "") for c in desc["comps"]) - {""})] += 1
            if desc.get("phases"):
                ctx.stats["has_phases"] += 1
            if case["config"] != {}:
                ctx.stats["rankdir:%s" % case["config"].get("graph", {}).get("rankdir", "-")] += 1
            ctx.stats["outcome:%s" % (rec["exc"] or "ok")] += 1
            if rec["exc"] == "graphviz-failure":
                gvfail += 1
                ctx.case(nontrivial=False)
                if len(ctx.notes) < 10:
                    ctx.notes.append("Graphviz layout failure (skipped): %s" % rec["detail"][-160:])
                continue
            ctx.case(key=[stream, mode, case["group"], json.dumps(case["config"], sort_keys=True, default=str),
                          [(c["kind"], c["name"], c["parents"], c.get("group", "")) for c in desc["comps"]]],
                     nontrivial=rec["exc"] is None and len(desc["comps"]) >= 3,
                     sample={"mode": mode, "group": case["group"], "components": [(c["kind"], c["name"], c.get("group", ""))
                                                                                  for c in desc["comps"]][:8],
                             "config_keys": sorted(case["config"].get("node", {}))[:8] if case["config"] else "{}"})
            model = ask_model(ctx.drv, case, mode, out["loss"])
            ctx.traces += 1
            if rec["gv"] is not None:
                deanonymise(rec["gv"], mode)
            if not malformed:
                correspond(ctx, case, mode, rec, model, cid)
                if rec["exc"] in ("KeyError", "TypeError") and model.get("ok") is False:
                    # a configuration the code cannot use (missing section / clashing `label`): nothing to draw
                    if not rec["cfg_same"]:
                        ctx.oracle(cid, "config_unchanged", "diagram", {"name_class": "plain"},
                                   {"after": rec["cfg_after"], "before": case["config"], "mode": mode})
                    continue
                oracle(ctx, case, mode, rec, out["loss"], cid)
            else:
                # names DOT cannot express / un-quoted cluster names: the model stops at what pydot is handed, so only
                # the exception-free part of the model is compared: it must say which names are inexpressible
                if "bad-op" in model:
                    ctx.corr(cid, "diagram(%s): driver rejects the description" % mode, model)
                elif model.get("ok") and case.get("malformed") in ("backslash", "group_backslash"):
                    rids = [n["rid"] for c in model["graph"]["clusters"] for n in c["nodes"]] + \
                           [n["rid"] for n in model["graph"]["nodes"]]
                    if (None in rids) != any(not dot_ok(c["name"]) for c in desc["comps"]):   # group names: Python twin only
                        ctx.corr(cid, "diagram(%s): which names DOT can express (renderedId)" % mode,
                                 {"model_rids": rids, "names": [c["name"] for c in desc["comps"]]})
                oracle(ctx, case, mode, rec, out["loss"], cid, first_only=True)
    if not malformed and gvfail > max(3, 0.02 * 2 * len(cases)):
        raise RuntimeError("Graphviz itself failed on %d of %d well-formed diagrams" % (gvfail, 2 * len(cases)))
    if cases and skipped > 0.2 * len(cases):
        raise RuntimeError("more than 20%% of the generated systems could not be built (%d/%d)" % (skipped, len(cases)))


def witness_cases():
    """the committed witness of every open C19 finding (a KNOWN-FINDING line is printed only while it still fails)
    plus the committed corpus"""
    import glob
    from ..check import load_known, VERIF
    out = []
    for k in load_known():
        if k["property"] == "C19" and k.get("status") == "open" and "witness_case" in k:
            out.append(copy.deepcopy(k["witness_case"]))
    for f in sorted(glob.glob(os.path.join(VERIF, "corpus", "C19", "*.json"))):
        out.append(json.load(open(f))["case"])
    return out


def run(ctx):
    wit = witness_cases()
    mal = [c for c in wit if c.get("malformed")]
    if mal:
        ctx.stats["witness_runs"] += len(mal)
        run_batch(ctx, mal, malformed=True)
    good = [c for c in wit if not c.get("malformed")]
    if good:
        ctx.stats["regression_cases"] += len(good)
        run_batch(ctx, good)
    n = ctx.n(200, 6000)
    run_batch(ctx, [gen_case(ctx.rng) for _ in range(n)])
    nm = ctx.n(24, 300)
    run_batch(ctx, [gen_case(ctx.rng, malformed=BAD_CLASSES[k % len(BAD_CLASSES)]) for k in range(nm)], malformed=True)


def search(ctx):
    run_batch(ctx, [gen_case(ctx.rng) for _ in range(ctx.n(150, 600))])


def replay(ctx, data):
    c = data["case"]
    case = {"desc": c["desc"], "config": c["config"], "group": c["group"], "malformed": c.get("malformed")}
    run_batch(ctx, [case], malformed=bool(case["malformed"]))
