"""C16 — results depend on the final structure only, not on the edit history."""
import copy, json, math, os, tempfile

from .. import hist as H, histgen as G
from . import c14

CLAIM = True
LEVEL_TEXT = ("Theorems (Lean 4) about the statement-by-statement model of the editing methods: every reachable state is "
              "well-formed (C14) and, for well-formed states, the relationships every analysis starts from are functions of the "
              "name-keyed abstract structure alone: `_rel_update()` (each component's ordered inputs and its children, by name), "
              "`_set_phase_lkup()` (each component's phase configuration) and the component list do not depend on node indices, "
              "dict insertion order, freed indices or the `pnames` bookkeeping (`rel_factors`, `phase_lkup_factors`, "
              "`names_factor`); rejected calls leave no trace (`noops_invisible`). The numeric half (Props/C16Renumber): for two solver views that differ by a renumbering of the nodes "
              "(gaps from freed indices, other sibling order, other topological order) the solver performs the same number of sweeps, "
              "ends in the same outcome (ok / RuntimeError / a law exception) and returns the same voltages, currents and flags up to the "
              "renumbering (`solvePhase_renumber`, `..._error`, `..._isOk_iff`), and the whole solve() table is the same up to row order: "
              "component and subsystem rows are permutations, total and average rows are equal (`solve_renumber`). The composition (Props/C16Final): two arbitrary edit histories "
              "(any calls, accepted or rejected, from any two constructor calls) whose final abstract structures are the `Same` (same entries by name with the same "
              "component, ordered inputs and feeder set; same phase configurations, groups, rails; same ordered phases - node indices, sibling "
              "order, registry order free) give solver views related by a renumbering (`toSSys_iso`), hence solve() succeeds on one iff on the "
              "other and the tables are equal up to row order (`histories_same_table`, `histories_same_error`; no well-formedness hypothesis left, "
              "only that the topological order handed in is a valid one - rustworkx's order is a parameter of the model). The configuration reports (Props/C16Reports, "
              "about Model/Reports.lean, which is compared cell by cell with params(limits=True) / limits() / phases() / tree() of the edited system on every "
              "check point): each lists exactly the live components (`params_lists_live`, `limits_lists_live`, `phases_lists_live` - full strength since the "
              "Rectifier rows missing from phases() were repaired in /repo f863daa, a defect found by this model), shows the stored normalised parameter or "
              "`interp` for a table (`params_show_normalised`), a limit iff it differs from the default (`limits_show_nondefault`), the per-phase value of a load "
              "(`phases_show_values`), and all four are the same up to row order for every valid topological order (`reports_order_free`). rail_rep() (Props/C16Rail): two histories with the same final structure give rail reports "
              "that are equal up to row order and the order inside a warning cell (`histories_same_rail_rep`; all members of a rail show the same Vin: "
              "`rail_members_same_vin`). The diagrams (Props/C16Diag, bridge from the edit-history model to Model/Diagram + Props/C19Order): two histories from "
              "constructors with the same system name whose final structures are the same give make_diag() results that are both the same exception or "
              "equivalent graphs (same clusters / members / top-level nodes / edges / every attribute, up to order) for every configuration and group flag "
              "(`histories_same_diagram`, no hypothesis left), and make_hdiag() likewise with equal colours, loss labels and legend (`histories_same_heat_diagram`, "
              "under the hypotheses of `histories_same_table` only). save() (Props/C16Save, bridge from the edit-history model to Model/Persist + "
              "Props/C12Same): two histories with the same final structure and system name write documents whose reloads are both the same exception or equivalent systems "
              "(`histories_same_save_partial`: no hypothesis on the version string, the registries or reserved names; partial through `Built` components and non-empty "
              "component names), and the reloads solve to the same table (`histories_same_save_same_table_partial`); the documents themselves differ in section order. "
              "All of this is additionally tied to the code by the differential test: after "
              "random successful edit histories every report (solve, rail_rep, params, limits, phases, tree, save, make_diag) of "
              "the edited system is compared with the same report of systems built from scratch from the final structure in a "
              "canonical and in shuffled construction orders.")
LEVEL_NOTE = ("proved: bookkeeping factors through the abstraction; solver and solve() table are invariant under node renumbering, sibling "
              "order and topological order. Which law exception escapes when two components fail in the same sweep does depend on the "
              "processing order (the exception class does not). The composition (two histories, same final structure => same solve() table / "
              "rail report / configuration reports up to row order) is proved (C16Final, C16Rail, C16Reports); save() (C16Save, partial through `Built` / non-empty names) and the diagrams (C16Diag) are proved "
              "as functions of the final structure too; rustworkx (index allocation, edge order, topological order) is a parameter of every statement.")
LEVEL_NOTE = LEVEL_NOTE + (' The saved document is also judged by what it is for: from_file(save(S)) must succeed (or fail alike) and solve alike for the edited system, the fresh build and the shuffled builds (`reload`).')
MODULE = "SysLoss.Props.C16"
MODULES = ["SysLoss.Props.C16", "SysLoss.Props.C16Renumber", "SysLoss.Props.C16Final", "SysLoss.Props.C16Reports", "SysLoss.Props.C16Rail",
           "SysLoss.Props.C16Diag", "SysLoss.Props.C16Save"]
THEOREMS = [
    "SysLoss.C16.names_factor", "SysLoss.C16.rel_factors", "SysLoss.C16.phase_lkup_factors",
    "SysLoss.C16.noops_invisible", "SysLoss.C16.factors_nonvacuous", "SysLoss.C16.toSSys_node",
    # Props/C16Sweep: the sweeps are pointwise maps, hence independent of the topological order and of sibling order
    "SysLoss.C16.fwdProp_pointwise", "SysLoss.C16.fwdProp_order_free", "SysLoss.C16.backProp_pointwise",
    "SysLoss.C16.backProp_order_free", "SysLoss.C16.childCurr_sibling_order", "SysLoss.C16.childCurr_perm",
] + ["SysLoss.C16R." + t for t in (
    # Props/C16Renumber: the solver and the whole solve() table commute with a renumbering of the nodes
    "solvePhase_renumber", "solvePhase_renumber_error", "solvePhase_runtime_iff", "solvePhase_isOk_iff",
    "fwdAt_comm", "backAt_comm", "childCurr_comm", "fwdProp_rel", "backProp_rel", "converged_rel", "init_rel", "loop_rel",
    "LawErr.not_runtime", "compRow_comm", "rootOf_hidx_comm", "compRows_spec", "compRows_renumber", "aggregates_perm",
    "phaseTable_renumber", "nsrc_structural", "averageRow_congr", "solve_renumber", "solve_renumber_error")] + [
    # Props/C16Final: the composition - same final structure => same solve() table, for arbitrary edit histories
    "SysLoss.C16F.toSSys_iso", "SysLoss.C16F.toSSys_tableWF", "SysLoss.C16F.toSSys_node?", "SysLoss.C16F.same_structure_same_table",
    "SysLoss.C16F.same_structure_same_error", "SysLoss.C16F.same_structure_isOk_iff", "SysLoss.C16F.histories_same_table",
    "SysLoss.C16F.histories_same_error", "SysLoss.C16F.exists_validTopo", "SysLoss.AStruct.Same.comps_perm",
    "SysLoss.AStruct.Same.symm", "SysLoss.AStruct.Same.refl"] + ["SysLoss.C16P." + t for t in (
    # Props/C16Reports: the Lean model of params() / limits() / phases() / tree() (Model/Reports.lean)
    "params_lists_live", "limits_lists_live", "params_show_config", "params_show_normalised", "limits_show_nondefault",
    "phases_rows_keys", "phases_lists_live", "phases_show_activity", "phases_show_values", "phases_rows_wf", "phases_domain",
    "params_order_free", "tree_order_free", "phases_order_free", "reports_order_free", "tree_lists_live_partial", "regression_rectifier")] + [
    "SysLoss.C16R." + t for t in (
    # Props/C16Rail: rail_rep() as a function of the final structure
    "railRep_perm_congr", "railRep_perm_congr_needs_uniform", "rail_members_same_vin", "solve_railVinUniform", "rail_rep_renumber",
    "rail_rep_renumber_rows", "RailPerm.length_eq", "RailPerm.mem_left", "RailPerm.mem_right", "RailsUnique.iso", "railsOf_perm",
    "toSSys_railsUnique", "same_structure_same_rail_rep", "histories_same_rail_rep")] + [
    "SysLoss.C16D." + t for t in (
    # Props/C16Diag: make_diag() / make_hdiag() as functions of the final structure (bridge from the edit-history model to Model/Diagram)
    "diagComps_perm", "diagEdges_perm", "diagComps_factor", "mem_diagEdges", "diagEdges_nodup", "readsOk", "histories_readsOk",
    "diagComps_length", "diagEdges_length", "name_step", "name_run", "name_init", "same_structure_same_diagram",
    "histories_same_diagram", "histories_same_mdiag", "solve_aligned", "lossRows_by_name", "lossRows_perm",
    "same_structure_same_heat_diagram", "histories_same_heat_table", "histories_same_heat_diagram")] + [
    "SysLoss.C16S." + t for t in (
    # Props/C16Save: save() as a function of the final structure for edit histories (bridge from the edit-history model to Model/Persist)
    "regN_run", "hasSrc_run", "toNode_parents_eq_toSSys", "toDesc_same", "toDesc_nodes_perm", "toDesc_descWF_partial",
    "fromFile_save_toDesc", "same_structure_same_save_partial", "histories_same_save_partial",
    "same_structure_same_save_same_table_partial", "histories_same_save_same_table_partial", "reachable_descWF_partial",
    "histories_same_desc")]
RULE = ("random edit histories of 5-50 calls (all six methods, ~20% rejected and dropped, components with limits and interpolation "
        "tables, phases, groups, rails, a PMux in ~50%) with forced coverage of: rename through change_comp, deletion with and "
        "without children, re-adding a deleted name, edits above / below / of the PMux and of its inputs, source deletion freeing "
        "low node indices; at the end (and at one intermediate point) all reports of the edited system vs a fresh system built "
        "from the reconstructed final structure in canonical order and in two shuffled orders; non-trivial = >= 5 accepted edits "
        "incl. >= 1 change_comp or del_comp and a final system of >= 3 components; distinct by history")
ASSUMPTIONS = c14.ASSUMPTIONS + [
    "the fresh systems are built by this harness from the reconstruction of the edited system's public reports (params/tree/save) "
    "and from the component descriptions the harness itself passed in",
    "numeric cells of solve()/rail_rep() are compared with 1e-9 relative tolerance (sums over children run in a different order); "
    "all other cells exactly; row order and dict key order are canonicalised by name"]
EXPLANATION = ("theorems: SysLoss.Props.C16 (+ C14/C15); correspondence: Lean `hist` run vs the real System after every call; "
               "oracle: edited vs freshly built systems, report by report; reports must not raise; params()/limits()/phases() "
               "show the configured values")
TRUSTED = ["Graphviz dot -Tjson as observation instrument for make_diag"]

_TMP = tempfile.mkdtemp(prefix="verif-c16-")


# ---------------------------------------------------------------------------------------------------
# reports, canonicalised

def _num(x):
    try:
        if isinstance(x, bool) or isinstance(x, str):
            return None
        return float(x)
    except Exception:
        return None


def df_rows(df, keys):
    """DataFrame -> {key tuple: {col: cell}}"""
    if df is None:
        return None
    out = {}
    cols = [str(c) for c in df.columns]
    for r in df.itertuples(index=False):
        row = dict(zip(cols, r))
        k = tuple(str(row.get(c, "")) for c in keys if c in row)
        # several aggregate rows can share a key: keep all, in order
        n = 0
        while (k, n) in out:
            n += 1
        out[(k, n)] = {c: H._cell(v) for c, v in row.items()}
    return out


def reports(sys_, diag=False):
    """every report of C16's list as plain data, or the exception class it raised"""
    rep = {}

    def get(name, f, keys):
        df, e, _ = H.quiet(f)
        rep[name] = ("exc", H.exc_name(e)) if e is not None else ("ok", df_rows(df, keys))

    # the configuration reports are taken BEFORE the solver-based ones, so that a solver call that writes into the
    # system (limits, parameters, registries) shows up as a difference against a later snapshot
    get("params", lambda: sys_.params(limits=True), ["Component"])
    get("limits", sys_.limits, ["Component"])
    get("phases", sys_.phases, ["Component", "Active phase"])
    _, e, text = H.quiet(sys_.tree)
    rep["tree"] = ("exc", H.exc_name(e)) if e is not None else ("ok", sorted(H.parse_tree(text)))
    path = os.path.join(_TMP, "s.json")
    _, e, _ = H.quiet(sys_.save, path)
    if e is not None:
        rep["save"] = ("exc", H.exc_name(e))
    else:
        rep["save"] = ("ok", canon_doc(json.load(open(path))))
        # what the saved file is good for: two systems of the same final structure must both reload (or both fail alike) and the
        # reloaded systems must solve alike - whatever order the document lists its sections in
        from sysloss.system import System
        s2, e2, _ = H.quiet(System.from_file, path)
        if e2 is not None:
            rep["reload"] = ("exc", H.exc_name(e2))
        else:
            df2, e3, _ = H.quiet(s2.solve)
            rep["reload"] = ("exc", "solve:" + H.exc_name(e3)) if e3 is not None else ("ok", df_rows(df2, ["Component", "Phase"]))
    get("solve", sys_.solve, ["Component", "Phase"])
    get("rail_rep", sys_.rail_rep, ["Rail", "Component", "Phase"])
    if diag:
        from sysloss.diagram import make_diag
        from .c19 import parse_gv
        path = os.path.join(_TMP, "d.json")
        _, e, _ = H.quiet(make_diag, sys_, fname=path)
        if e is not None:
            rep["make_diag"] = ("exc", H.exc_name(e))
        else:
            gv = parse_gv(path)
            rep["make_diag"] = ("ok", {"nodes": sorted(json.dumps({k: v for k, v in n.items() if k not in ("pos", "width", "height")},
                                                                   sort_keys=True) for n in gv["nodes"]),
                                       "edges": sorted((e_["tail"], e_["head"]) for e_ in gv["edges"]),
                                       "clusters": sorted((c["name"], tuple(sorted(c["members"]))) for c in gv["clusters"])})
    return rep


def canon_doc(doc):
    """save() document with the insertion-order artefacts removed: component blocks keyed by name, children as sets"""
    sysb = doc["system"]
    out = {"system": {"name": sysb["name"], "phases": list(sysb["phases"].items()),
                      "phase_conf": sorted((k, json.dumps(v)) for k, v in sysb["phase_conf"].items()),
                      "groups": sorted(sysb["groups"].items()), "rails": sorted(sysb["rails"].items())}}
    blocks = {}
    for k, b in doc.items():
        if k == "system":
            continue
        kids = {p: sorted(json.dumps(c, sort_keys=True) for c in cs) for p, cs in b["childs"].items() if cs}
        blocks[k] = {"type": b["type"], "params": b["params"], "limits": b["limits"], "childs": kids,
                     "parents": b.get("parents")}
    # which root a shared subtree is listed under depends on nothing but the structure; the set of
    # (parent, child-description) pairs over all roots is what must agree
    pairs = set()
    for k, b in blocks.items():
        for p, cs in b["childs"].items():
            for c in cs:
                pairs.add((p, c))
    out["links"] = sorted(pairs)
    out["blocks"] = {k: {"type": b["type"], "params": b["params"], "limits": b["limits"], "parents": b["parents"]}
                     for k, b in blocks.items()}
    return out


def close(a, b):
    fa, fb = _num_s(a), _num_s(b)
    if fa is None or fb is None:
        return a == b
    if math.isnan(fa) and math.isnan(fb):
        return True
    return abs(fa - fb) <= 1e-9 * max(abs(fa), abs(fb)) + 1e-12


def _num_s(x):
    if isinstance(x, str):
        try:
            return float(x)
        except ValueError:
            return None
    return None


def diff_report(name, a, b):
    """first difference between two canonical reports (None if equal up to tolerance)"""
    if a[0] != b[0]:
        return {"report": name, "a": a[0] if a[0] == "ok" else a, "b": b[0] if b[0] == "ok" else b}
    if a[0] == "exc":
        return None if a[1] == b[1] else {"report": name, "a": a, "b": b}
    x, y = a[1], b[1]
    if name in ("solve", "rail_rep", "params", "limits", "phases", "reload"):
        if x is None or y is None:
            return None if x is None and y is None else {"report": name, "a_is_none": x is None, "b_is_none": y is None}
        if set(x) != set(y):
            return {"report": name, "rows_only_in_a": sorted(map(str, set(x) - set(y)))[:6],
                    "rows_only_in_b": sorted(map(str, set(y) - set(x)))[:6]}
        for k in x:
            ra, rb = x[k], y[k]
            if set(ra) != set(rb):
                return {"report": name, "row": str(k), "columns_a": sorted(ra), "columns_b": sorted(rb)}
            for c in ra:
                if not close(ra[c], rb[c]):
                    return {"report": name, "row": str(k), "column": c, "a": ra[c], "b": rb[c]}
        return None
    return None if x == y else {"report": name, "a": json.dumps(x, sort_keys=True)[:300], "b": json.dumps(y, sort_keys=True)[:300]}


# ---------------------------------------------------------------------------------------------------
# a fresh system from the final structure

def final_structure(run):
    """what has to be rebuilt: per live name its description, ordered parents, group, rail, phase conf; phases"""
    st = run.cur()
    if st["save_exc"] or st["links"] is None:
        return None
    preds = {}
    for p, c in st["links"]:
        preds.setdefault(c, []).append(p)
    comps = {}
    for name, ctype, tg in st["comps"]:
        d = run.by_tag.get(tg)
        if d is None:
            return None
        par = sorted(preds.get(name, []))
        if name == st["mux"]:
            par = list(st["mux_parents"])
        comps[name] = {"desc": dict(d, name=name), "parents": par}
    return {"name": run.init["name"], "comps": comps, "groups": dict(st["groups"]), "rails": dict(st["rails"]),
            "phase_conf": dict((k, v) for k, v in st["phase_conf"]), "phases": list(st["phases"])}


def fs_to_desc(fs, order):
    """the final structure in the description form of harness/sysdesc.py (for the Lean model of the reports)"""
    main = {"source": "vo", "pload": "pwr", "iload": "ii", "rload": "rs", "rloss": "rs", "vloss": "vdrop", "converter": "vo",
            "linreg": "vo", "pswitch": "rs", "pmux": "rs", "rectifier": "rs"}
    comps = []
    for n in order:
        c = fs["comps"][n]
        d = c["desc"]
        k = d["kind"]
        args = {main[k]: d["val"]}
        if k == "pmux" and d.get("rs_list"):
            args["rs"] = [d["val"]] * int(d["rs_list"])
        if k == "converter":
            args["eff"] = 0.9
        if d.get("limits"):
            args["limits"] = json.loads(json.dumps(d["limits"]))
        if d.get("table") and k in H.TABLE_KEY:
            z = H.TABLE_KEY[k]
            args[z] = {"vi": [3.3], "io": [0.1, 0.5, 0.9], z: [[0.55, 0.78, 0.92]] if z == "eff" else [[1e-5, 2e-5, 5e-5]]}
        e = {"name": n, "kind": k, "args": args, "parents": list(c["parents"])}
        if k == "pmux":
            e["plist"] = True
        g, r = fs["groups"].get(n, ""), fs["rails"].get(n, "")
        if g:
            e["group"] = g
        if r and k not in H.LOADS:
            e["rail"] = r
        conf = fs["phase_conf"].get(n)
        if conf is not None:
            pc = list(conf["names"]) if "names" in conf else {a: float(b) for a, b in conf["table"]}
            if pc != {} and pc != []:
                e["pconf"] = pc
        comps.append(e)
    return {"name": fs["name"], "comps": comps, "phases": {a: float(b) for a, b in fs["phases"]}}


def build_order(fs, rng=None):
    """a construction order (parents first); canonical = by name, else shuffled"""
    names = sorted(fs["comps"])
    if rng is not None:
        rng.shuffle(names)
    done, order = set(), []
    while len(order) < len(names):
        progressed = False
        for n in names:
            if n not in done and all(p in done for p in fs["comps"][n]["parents"]):
                order.append(n)
                done.add(n)
                progressed = True
                if rng is not None:
                    break
        if not progressed:
            return None
    return order


def build_fresh(fs, order, by_rail=None):
    from sysloss.system import System
    sys_ = None
    for n in order:
        c = fs["comps"][n]
        comp = H.mk(c["desc"])
        kw = {"group": fs["groups"].get(n, ""), "rail": fs["rails"].get(n, "")}
        if c["desc"]["kind"] in H.LOADS:
            kw["rail"] = ""
        par = c["parents"]
        if by_rail is not None:
            par = [fs["rails"][p] if (fs["rails"].get(p, "") != "" and by_rail.random() < 0.4) else p for p in par]
        if sys_ is None:
            if c["desc"]["kind"] != "source":
                return None, "first component is not a source"
            sys_, e, _ = H.quiet(lambda: System(fs["name"], comp, **kw))
        elif c["desc"]["kind"] == "source":
            _, e, _ = H.quiet(lambda: sys_.add_source(comp, **kw))
        else:
            arg = par if (c["desc"]["kind"] == "pmux") else par[0]
            _, e, _ = H.quiet(lambda: sys_.add_comp(arg, comp=comp, **kw))
        if e is not None:
            return None, "%s(%s): %s %s" % (n, c["desc"]["kind"], type(e).__name__, e)
    if fs["phases"]:
        _, e, _ = H.quiet(lambda: sys_.set_sys_phases({k: float(v) for k, v in fs["phases"]}))
        if e is not None:
            return None, "set_sys_phases: %r" % e
    for n, conf in fs["phase_conf"].items():
        if n not in fs["comps"]:
            continue
        arg = list(conf["names"]) if "names" in conf else {k: float(v) for k, v in conf["table"]}
        if arg == {}:
            continue
        _, e, _ = H.quiet(lambda: sys_.set_comp_phases(n, arg))
        if e is not None:
            return None, "set_comp_phases(%s): %r" % (n, e)
    return sys_, None


# ---------------------------------------------------------------------------------------------------
# the oracle at one check point

def config_shown(run, rep):
    """params()/limits()/phases() show what each component was configured with"""
    bad = []
    st = run.cur()
    if rep["params"][0] != "ok" or rep["limits"][0] != "ok":
        return bad
    prow = {k[0][0]: v for k, v in rep["params"][1].items()}
    lrow = {k[0][0]: v for k, v in rep["limits"][1].items()}
    for name, ctype, tg in st["comps"]:
        d = run.by_tag.get(tg)
        if d is None or name not in prow:
            continue
        if d.get("table"):
            col = {"eff": "eff (%)", "ig": "ig (A)"}[H.TABLE_KEY[d["kind"]]]
            if prow[name].get(col) != "interp":
                bad.append({"component": name, "column": col, "shown": prow[name].get(col), "configured": "interpolation table"})
        for key, rng_ in (d.get("limits") or {}).items():
            unit = {"v": "V", "i": "A", "p": "W", "t": "°C"}[key[0]]
            col1, col2 = "%s limit (%s)" % (key, unit), "%s  (%s)" % (key, unit)
            want = [repr(float(x)) for x in rng_]
            if col1 in prow[name] and prow[name][col1] != want:
                bad.append({"component": name, "column": col1, "shown": prow[name][col1], "configured": want})
            if name in lrow and col2 in lrow[name] and lrow[name][col2] != want:
                bad.append({"component": name, "column": col2, "shown": lrow[name][col2], "configured": want})
    if rep["phases"][0] == "ok" and rep["phases"][1] is not None:
        shown = {}
        for (k, _), row in rep["phases"][1].items():
            shown.setdefault(k[0], {})[row.get("Active phase")] = row
        sysph = [k for k, _ in st["phases"]]
        for name, conf in (st["phase_conf"] or []):
            if name not in shown:
                continue
            kind = [c[2].split(":")[0] for c in st["comps"] if c[0] == name]
            if not kind:
                continue
            if "table" in conf and kind[0] in H.LOADS:
                col = {"pload": "pwr (W)", "iload": "ii (A)", "rload": "rs (Ohm)"}[kind[0]]
                for ph, val in conf["table"]:
                    if ph in sysph:
                        got = shown[name].get(ph, {}).get(col)
                        if got != val:
                            bad.append({"component": name, "phase": ph, "column": col, "shown": got, "configured": val})
            if "names" in conf and kind[0] not in H.LOADS and kind[0] not in ("rloss", "vloss"):
                want = [p for p in sysph if p in conf["names"]] or ["N/A"]
                if kind[0] == "rectifier":
                    want = ["N/A"]       # a Rectifier's laws never read the phase configuration: always active (like the series losses)
                if sorted(shown[name]) != sorted(want):
                    bad.append({"component": name, "active_phases_shown": sorted(shown[name]), "configured": want})
    return bad


def check_point(ctx, run, stream, diag=False):
    """all clauses of C16 on the current state of `run`; returns list of (clause, detail)"""
    out = []
    rep = reports(run.sys, diag=diag)
    live = sorted(c[0] for c in run.cur()["comps"])
    for name, r in rep.items():
        if r[0] == "exc" and not (name in ("solve", "rail_rep") and r[1] in ("ValueError", "RuntimeError")) \
                and not (name == "reload" and r[1] in ("solve:ValueError", "solve:RuntimeError")):     # the RELOADED system has no steady state either
            out.append(("report_raises", {"report": name, "exception": r[1]}))
    # every report lists exactly the live components
    if rep["params"][0] == "ok":
        shown = sorted(k[0][0] for k in rep["params"][1])
        if shown != live:
            out.append(("lists_live", {"report": "params", "shown": shown, "live": live}))
    if rep["phases"][0] == "ok" and rep["phases"][1] is not None:
        shown = sorted(set(k[0][0] for k in rep["phases"][1]))
        if shown != live:
            out.append(("lists_live", {"report": "phases", "shown": shown, "live": live}))
    if rep["solve"][0] == "ok":
        shown = sorted(set(k[0][0] for k, v in rep["solve"][1].items() if v.get("Type", "") != ""))
        if shown != live:
            out.append(("lists_live", {"report": "solve", "shown": shown, "live": live}))
    if rep["save"][0] == "ok":
        d = rep["save"][1]
        shown = sorted(set(d["blocks"]) | set(json.loads(c)["params"]["name"] for _, c in d["links"]))
        if shown != live:
            out.append(("lists_live", {"report": "save", "shown": shown, "live": live}))
        for reg in ("groups", "rails"):
            if sorted(k for k, _ in d["system"][reg]) != live:
                out.append(("lists_live", {"report": "save/" + reg, "keys": [k for k, _ in d["system"][reg]], "live": live}))
    for b in config_shown(run, rep):
        out.append(("params_show_config", b))
    # the PMux's ordered inputs as the accepted calls define them (priority order is part of the final structure)
    st_ = run.cur()
    if getattr(run, "mux_expect", None) is not None and st_["mux"] == run.mux_expect[0] and st_["mux_parents"] is not None:
        if list(st_["mux_parents"]) != list(run.mux_expect[1]):
            out.append(("mux_input_order", {"mux": st_["mux"], "save_shows": list(st_["mux_parents"]),
                                            "calls_define": list(run.mux_expect[1])}))
    fs = final_structure(run)
    if fs is None:
        out.append(("report_raises", {"why": "the final structure cannot be reconstructed", "save": run.cur()["save_exc"]}))
        return out, rep
    order = build_order(fs)
    if order is None:
        out.append(("same_as_fresh", {"why": "no construction order exists for the reconstructed structure", "structure": fs["comps"]}))
        return out, rep
    fresh, err = build_fresh(fs, order)
    if fresh is None:
        out.append(("same_as_fresh", {"why": "the final structure cannot be built from scratch", "error": err, "order": order}))
        return out, rep
    # the configuration reports of the EDITED system against the Lean model of params / limits / phases / tree
    # (Model/Reports.lean) evaluated on the final structure: model-vs-implementation, recorded as correspondence
    from .. import reportscheck
    try:
        for rname_, col, detail in reportscheck.diff_reports(ctx.drv, run.sys, fs_to_desc(fs, order)):
            ctx.corr({"history": run.history(), "calls": H.short(run.history())}, "report: %s/%s" % (rname_, col), dict(detail, stream=stream))
        ctx.stats["%s:reports_vs_model" % stream] += 1
    except Exception as e:       # noqa  - a description the report model cannot take (counted, never a verdict)
        ctx.stats["%s:reports_vs_model:skipped:%s" % (stream, type(e).__name__)] += 1
    frep = reports(fresh, diag=diag)
    for name in rep:
        if name not in frep:
            continue          # "reload" exists only when save() succeeded; a save() difference is reported under "save"
        d = diff_report(name, rep[name], frep[name])
        if d is not None:
            out.append(("same_as_fresh:" + name, dict(d, a_is="edited system", b_is="built from scratch (canonical order)")))
    for k in range(2):
        o2 = build_order(fs, ctx.rng)
        f2, err = build_fresh(fs, o2, by_rail=ctx.rng) if o2 else (None, "no order")
        if f2 is None:
            out.append(("order_independent", {"why": "shuffled construction failed", "error": err, "order": o2}))
            continue
        r2 = reports(f2, diag=False)
        for name in r2:
            if name not in frep:
                continue
            d = diff_report(name, frep[name], r2[name])
            if d is not None:
                out.append(("order_independent:" + name, dict(d, a_is="canonical order %s" % order, b_is="order %s" % o2)))
    return out, rep


# ---------------------------------------------------------------------------------------------------

class Run16(H.Run):
    def __init__(self, init):
        self.by_tag = {}
        super().__init__(init, full=False)
        self.note(init["comp"])

    def note(self, c):
        self.by_tag[H.tag(c["kind"], c["val"])] = {k: v for k, v in c.items() if k != "name"}

    def apply(self, op):
        if "comp" in op:
            self.note(op["comp"])
        return super().apply(op)


def extras(rng, c):
    """limits / interpolation table for some components"""
    if rng.random() < 0.3:
        key = rng.choice(["ii", "io", "vi", "vo", "pi", "po", "pl", "tr"])
        c["limits"] = {key: [0.0, float(rng.choice([0.5, 1.5, 3.0, 20.0]))]}
    if c["kind"] in H.TABLE_KEY and rng.random() < 0.3:
        c["table"] = True
    return c


FORCED = ["rename", "del_with", "del_without", "readd", "edit_mux_input", "del_source"]


def forced_op(rng, run, serial, what):
    """a call of the kind C16 wants covered, if the current structure allows one"""
    v = G.View(run.cur())
    cfg = G.Cfg()
    fresh = v.fresh(rng, cfg, H.NAMES, H.RAILS)
    if what == "rename" and fresh:
        t = rng.choice(v.names)
        kind = v.kind[t] if v.ctype[t] in ("SOURCE", "PMUX") else (rng.choice(H.NONLOAD) if v.kids.get(t) else v.kind[t])
        return {"op": "change_comp", "name": t, "comp": G.new_comp(kind, fresh, serial), "group": rng.choice(H.GROUPS), "rail": ""}
    if what in ("del_with", "del_without"):
        c = [x for x in v.names if v.ctype[x] != "SOURCE" and (what == "del_with" or v.kids.get(x))]
        if c:
            return {"op": "del_comp", "name": rng.choice(c), "del_childs": what == "del_with"}
    if what == "readd":
        gone = [n for n in getattr(run, "deleted", []) if n not in v.used]
        par = [x for x in v.names if v.ctype[x] != "LOAD"]
        if gone and par:
            return {"op": "add_comp", "parent": v.addr(rng, rng.choice(par)),
                    "comp": G.new_comp(rng.choice(H.LOADS + H.NONLOAD), rng.choice(gone), serial), "group": "", "rail": ""}
    if what == "edit_mux_input":
        for m in v.muxes:
            ins = sorted(v.preds.get(m, ()))
            if ins:
                t = rng.choice(ins)
                if rng.random() < 0.5 and fresh:
                    kind = v.kind[t] if v.ctype[t] == "SOURCE" else rng.choice(H.NONLOAD)
                    return {"op": "change_comp", "name": t, "comp": G.new_comp(kind, fresh, serial), "group": "", "rail": ""}
                if v.ctype[t] != "SOURCE":
                    return {"op": "del_comp", "name": t, "del_childs": False}
    if what == "del_source" and len(v.sources) >= 2:
        return {"op": "del_comp", "name": v.sources[0], "del_childs": True}
    return None


def gen_history(ctx, stream="main"):
    rng = ctx.rng
    cfg = G.Cfg(p_reject=0.2, p_unsafe=1.0, w_phase=0.18, p_mux=0.5, p_weird=0.0)
    cfg.p_wrong_form = 0.1
    init = G.gen_init(rng, cfg)
    extras(rng, init["comp"])
    run = Run16(init)
    run.deleted = []
    L = rng.randint(5, 50)
    todo = rng.sample(FORCED, rng.randint(1, 4))
    mid = rng.randint(3, max(3, L - 1))
    mids = []
    for k in range(L):
        op = None
        if todo and k > 4 and rng.random() < 0.25:
            op = forced_op(rng, run, k + 1, todo[0])
            if op is not None:
                ctx.stats["%s:forced:%s" % (stream, todo[0])] += 1
                todo.pop(0)
        if op is None:
            op, _ = G.gen_op(rng, run.cur(), run.recorded, k + 1, cfg)
        if "comp" in op:
            extras(rng, op["comp"])
        before = set(c[0] for c in run.cur()["comps"])
        s = run.apply(op)
        after = set(c[0] for c in s["st"]["comps"])
        run.deleted += sorted(before - after)
        ctx.stats["%s:call:%s:%s" % (stream, op["op"], "ok" if s["outcome"] == "ok" else "rejected")] += 1
        if s["wf"] or s["st"]["save_exc"]:
            break
        if k == mid:
            mids.append(k)
            run.mid_fail, _ = check_point(ctx, run, stream)
            if run.mid_fail:
                run.mid_at = k
                break
    return run


def report_failures(ctx, run, fails, stream, at=None):
    if not fails:
        return False
    hist = {"init": run.init, "ops": run.ops if at is None else run.ops[:at + 1]}
    clause, detail = fails[0]

    def still(h):
        r = replay16(h)
        if r.init_outcome != "ok" or any(s["wf"] for s in r.steps):
            return False
        f, _ = check_point(ctx, r, "shrink")
        return any(c == clause for c, _ in f)
    small = H.ddmin(hist, still) if len(hist["ops"]) <= 40 else hist
    r2 = replay16(small)
    f2, _ = check_point(ctx, r2, "shrink")
    f2 = [x for x in f2 if x[0] == clause] or [(clause, detail)]
    last = small["ops"][-1]["op"] if small["ops"] else "System"
    ctx.oracle({"history": small, "calls": H.short(small)}, clause, last, {},
               {"stream": stream, **f2[0][1], "other_clauses_failing": sorted(set(c for c, _ in fails))[:8]})
    ctx.stats["oracle:%s" % clause.split(":")[0]] += 1
    return True


def replay16(h):
    r = Run16(h["init"])
    r.deleted = []
    if r.init_outcome != "ok":
        return r
    for op in h["ops"]:
        r.apply(op)
    return r


def check_history(ctx, run, stream, diag=False):
    hist = run.history()
    res = H.model(ctx.drv, hist)
    ctx.traces += 1
    c = c14.corr_fail(run, res)
    if c is not None:
        ctx.corr({"history": hist, "calls": H.short(hist)}, c[1], {"step": c[0], "stream": stream, **c[2]})
    bad = False
    if getattr(run, "mid_fail", None):
        bad = report_failures(ctx, run, run.mid_fail, stream, at=run.mid_at)
    elif not any(s["wf"] for s in run.steps) and run.init_outcome == "ok":
        fails, _ = check_point(ctx, run, stream, diag=diag)
        bad = report_failures(ctx, run, fails, stream)
    elif run.init_outcome == "ok":
        # an accepted call broke the structure (C14 reports that); C16's own clause "every report succeeds" still applies
        rep = reports(run.sys)
        fails = [("report_raises", {"report": name, "exception": r[1]}) for name, r in rep.items()
                 if r[0] == "exc" and name != "reload" and not (name in ("solve", "rail_rep") and r[1] in ("ValueError", "RuntimeError"))]
        if fails:
            ctx.stats["%s:report_raises_on_broken_structure" % stream] += 1
            ctx.oracle({"history": hist, "calls": H.short(hist)}, "report_raises", run.steps[-1]["op"]["op"], {},
                       dict(fails[0][1], stream=stream, note="after an accepted call; the structure is no longer well-formed (see C14)"))
            bad = True
    acc = [s for s in run.steps if s["outcome"] == "ok"]
    edits = sum(1 for s in acc if s["op"]["op"] in ("change_comp", "del_comp"))
    ctx.case(key=c14._hist_key(hist), nontrivial=(len(acc) >= 5 and edits >= 1 and run.init_outcome == "ok"
                                                  and len(run.cur()["comps"]) >= 3),
             sample={"calls": H.short(hist)[:14], "final": [c[:2] for c in (run.cur() or {"comps": []})["comps"]]})
    return bad


def blind_move(ctx, run, stream, tail=None):
    """Edits WITHOUT any report in between.  The run itself observes the system after every call (params / tree / save),
    which refreshes every cache an analysis keeps; a cache that is only invalidated by what the reports look at would
    never be caught that way.  Here, with all reports just taken (caches hot), a leaf is deleted and re-added under the
    same name below ANOTHER parent (rustworkx re-uses the freed node index) with no report between the two calls; the
    reports afterwards must equal those of the final structure built from scratch."""
    import copy
    fs = final_structure(run)
    if fs is None:
        return False
    kids = {n: [] for n in fs["comps"]}
    for n, c in fs["comps"].items():
        for q in c["parents"]:
            kids.setdefault(q, []).append(n)
    if tail is None:
        leaves = sorted(n for n, c in fs["comps"].items() if not kids[n] and len(c["parents"]) == 1
                        and c["desc"]["kind"] not in ("source", "pmux"))
        ctx.rng.shuffle(leaves)
        tail = None
        for x in leaves:
            others = sorted(q for q, c in fs["comps"].items() if q != x and q != fs["comps"][x]["parents"][0]
                            and c["desc"]["kind"] not in H.LOADS)
            if others:
                tail = [x, ctx.rng.choice(others)]
                break
        if tail is None:
            return False
    x, p2 = tail
    if x not in fs["comps"] or p2 not in fs["comps"]:
        return False
    reports(run.sys)                                    # every cache is hot
    desc = fs["comps"][x]["desc"]
    e1 = H.call(run.sys, {"op": "del_comp", "name": x, "del_childs": True})
    e2 = H.call(run.sys, {"op": "add_comp", "parent": p2, "comp": desc, "group": "", "rail": ""})
    ctx.stats["%s:blind_move" % stream] += 1
    if e1 is not None or e2 is not None:
        ctx.stats["%s:blind_move:rejected" % stream] += 1
        return False
    rep = reports(run.sys)
    fs2 = copy.deepcopy(fs)
    fs2["comps"][x]["parents"] = [p2]
    fs2["groups"][x] = ""
    fs2["rails"][x] = ""
    fs2["phase_conf"].pop(x, None)
    order = build_order(fs2)
    fresh, err = build_fresh(fs2, order) if order else (None, "no order")
    if fresh is None:
        return False
    frep = reports(fresh)
    hist = run.history()
    for name in rep:
        if name not in frep:
            continue
        d = diff_report(name, rep[name], frep[name])
        if d is not None:
            ctx.oracle({"history": hist, "calls": H.short(hist), "blind_tail": [x, p2]}, "same_as_fresh:" + name, "del_comp+add_comp", {},
                       dict(d, stream=stream + ":blind_move", a_is="edited system: all reports taken, then del_comp(%r) and add_comp(%r, %r) "
                            "with no report in between" % (x, p2, x), b_is="final structure built from scratch"))
            ctx.stats["oracle:same_as_fresh"] += 1
            return True
    return False


def run_corpus(ctx):
    import glob
    from ..check import VERIF
    for f in sorted(glob.glob(os.path.join(VERIF, "corpus", ctx.prop, "*.json"))):
        h = json.load(open(f))["case"]["history"]
        ctx.stats["corpus_runs"] += 1
        check_history(ctx, replay16(h), "corpus:" + os.path.basename(f))


def run(ctx):
    run_corpus(ctx)
    n = ctx.n(120, 2200)
    for k in range(n):
        r = gen_history(ctx)
        bad = check_history(ctx, r, "main", diag=(k % 12 == 0))
        if not bad and r.init_outcome == "ok" and r.cur() is not None and not any(s_["wf"] for s_ in r.steps):
            blind_move(ctx, r, "main")
        st = r.cur()
        if st is not None:
            ctx.stats["main:final-size:%s" % ("<=3" if len(st["comps"]) <= 3 else "<=8" if len(st["comps"]) <= 8 else ">8")] += 1
            if any(c[1] == "PMUX" for c in st["comps"]):
                ctx.stats["main:final-has-mux"] += 1
            if st["phases"]:
                ctx.stats["main:final-has-phases"] += 1


    # scripted family: a PMux over related inputs (ancestor / descendant, by rail / by name), then edits of the inputs -
    # the order and the spelling of the recorded inputs is where an edit history can leak into the results
    for _ in range(ctx.n(30, 500)):
        r = Run16(G.gen_init(ctx.rng, G.Cfg()))
        r.deleted = []
        if r.init_outcome == "ok":
            G.mux_family(ctx.rng, r.apply)
            ctx.stats["stream:mux_family:histories"] += 1
            check_history(ctx, r, "mux_family")
    index_reuse_stream(ctx)


def index_reuse_stream(ctx):
    for _ in range(ctx.n(15, 200)):
        r = Run16(G.gen_init(ctx.rng, G.Cfg()))
        r.deleted = []
        if r.init_outcome == "ok":
            G.index_reuse_family(ctx.rng, r.apply)
            ctx.stats["stream:index_reuse:histories"] += 1
            check_history(ctx, r, "index_reuse")


def search(ctx):
    for _ in range(ctx.n(100, 800)):
        check_history(ctx, gen_history(ctx, "search"), "search")


def replay(ctx, data):
    h = data["case"]["history"] if "history" in data.get("case", {}) else data["case"]
    r = replay16(h)
    bad = check_history(ctx, r, "replay", diag=True)
    if not bad and data.get("case", {}).get("blind_tail"):
        blind_move(ctx, r, "replay", tail=data["case"]["blind_tail"])
