"""C18 — batt_life() steps the battery with the solved current, phase by phase.
Also hosts the battery-restoration probe of C17 (clause 3): `batt_restore_probe`, `batt_restore_sweep`."""
import copy, math

from .. import gen, sysdesc, wire, solved

CLAIM = True
LEVEL_TEXT = ("Theorems (Lean 4, any linearly ordered field, every callback script and every solver function) about "
              "Batt.battLife, the statement-by-statement model of System.batt_life: first log row = probe; the k-th deplete "
              "call receives the solver's current for the previous callback's (volt, rs) in phase k mod n of the declared "
              "order together with that phase's duration, resp. (cap0/I)*3.6; the log is the probe row followed by exactly "
              "the returned states up to and excluding the first with cap <= 0 or volt <= cutoff; positive durations give a "
              "strictly increasing time column, each time being the previous one plus the handed-out duration; a name that names no "
              "Source raises ValueError before any callback; a solve that did not converge raises RuntimeError instead of being "
              "handed on. The model is tied to the code on every run by replaying each batt_life() call "
              "(returned DataFrame, callback argument stream, exception class, Source row afterwards) through the compiled model.")
LEVEL_NOTE = ("Proof covers the loop for an arbitrary solver function AND (Props/C18Solve) its instantiation by the model's own solver: the current handed to "
              "the k-th depletion call is the Source's current in a CONVERGED state (never an intermediate iterate) of the system with the Source set to the probed "
              "(vo, rs) (`batt_current_is_solved`), it is the Source row's Iout and within itol of its children's current sum (`batt_current_source_law`), a "
              "non-converged or raising solve escapes without a depletion call, and restoring (vo, rs) gives the original system back (`withSource_restore_after`). "
              "On the implementation it is checked by the oracle against an independent public solve() of a fresh copy. "
              "Regression streams keep the witnesses of the repaired findings F29 (empty name accepted) and F30 "
              "(non-converged current handed on).")
MODULE = "SysLoss.Props.C18"
THEOREMS = [
    "SysLoss.C18.first_row",
    "SysLoss.C18.call_args",
    "SysLoss.C18.call_args_prefix",
    "SysLoss.C18.log_rows",
    "SysLoss.C18.time_steps",
    "SysLoss.C18.time_strict",
    "SysLoss.C18.time_strict_phases",
    "SysLoss.C18.time_strict_nophases",
    "SysLoss.C18.not_a_source",
    "SysLoss.C18.unconverged_raises",
] + ["SysLoss.C18." + t for t in (
    # Props/C18Solve: the abstract solver parameter instantiated by the model's own solver on the system with the Source set to the probed (vo, rs)
    "withSource_other_nodes", "withSource_src_node", "withSource_src_none", "withSource_twice", "withSource_restore", "withSource_restore_after",
    "solveIOf_ok", "solveIOf_error", "solveRaw_converged", "batt_current_is_solved", "batt_current_is_solved_of_maxiter", "maxiter_hypothesis_needed",
    "batt_unconverged_raises", "batt_solver_error_raises", "batt_current_source_law", "batt_current_source_law_of_maxiter", "source_flag_returned",
    "source_curr_is_spec", "loop_invariant", "source_row_current_law_noflag", "noMuxChild_withSource", "loop_exhausts", "uNonconv",
    "not_convergedAt_of_stepsTo", "dCalls")]
MODULES = ["SysLoss.Props.C18", "SysLoss.Props.C18Solve"]
# C17 clause 3 is proved about the same model in lean/SysLoss/Props/C17Batt.lean; to be listed by the C17 check:
C17_MODULE = "SysLoss.Props.C17Batt"
C17_THEOREMS = [
    "SysLoss.C17.batt_restores",
    "SysLoss.C17.batt_no_call_before_loop",
]
RULE = ("random power trees (gen.gen_system: 1-3 sources, <=14 nodes, all kinds, rails) x battery = any source (by name or by "
        "rail name) x scripted battery model (linear / exponential / sagging voltage with rising impedance; 3-200 steps; ends by "
        "capacity, by cutoff, immediately (cutoff >= start voltage or no capacity)) x 0 or 2-4 load phases x occasionally a "
        "callback raising at a random call; plus invalid battery names; non-trivial = the call returned a log after >= 3 "
        "deplete calls; distinct by system description + battery parameters")
ASSUMPTIONS = ["IEEE rounding is outside the theorems: DataFrame cells and callback arguments are compared with the model's "
               "values under 1e-9 relative tolerance",
               "the solver is a parameter of the model: its currents are replayed from the implementation (certificate); the "
               "oracle ties them to an independent solve() within 10x the solver tolerance",
               "callbacks return finite floats; termination is by the battery running out (the property's quantifier)"]
EXPLANATION = ("theorems: SysLoss.Props.C18 over Model/Batt.battLife; correspondence: `batt` driver command replays every "
               "batt_life() call (log, (dt, I) stream, outcome class, Source row afterwards when the call returned); oracle: the "
               "property's clauses evaluated on the recorded callback stream and the returned DataFrame alone")
TRUSTED = ["scripted battery models and the callback recorder in harness/props/c18.py"]

COLS = ["Time (s)", "Capacity (Ah)", "Voltage (V)", "Resistance (Ohm)"]


class BatteryFault(Exception):
    """an exception class sysloss cannot know about"""


EXC = {"KeyError": KeyError, "ValueError": ValueError, "RuntimeError": RuntimeError, "TypeError": TypeError,
       "ZeroDivisionError": ZeroDivisionError, "BatteryFault": BatteryFault}


# ---------------------------------------------------------------------------------------------------
# scripted battery models (stateful callbacks) with a recorder

class Battery:
    """p: kind (linear|exp|sag), cap0, v0, vend, rs0, n (target number of steps), raise_at (None|"probe"|k), raise_cls"""

    def __init__(self, p):
        self.p = p
        self.cap = float(p["cap0"])
        self.unit = None
        self.probe_rec = None          # {"ret": (c, v, r)} | {"raise": cls}
        self.dep = []                  # [{"dt", "i", "ret" | "raise"}]
        self.raised = None             # the exception object a callback raised

    def _fault(self):
        e = EXC[self.p.get("raise_cls", "KeyError")]("scripted battery fault")
        self.raised = e
        return e

    def _state(self, i):
        p = self.p
        frac = max(self.cap, 0.0) / p["cap0"] if p["cap0"] > 0 else 0.0
        v0, ve, rs0 = p["v0"], p["vend"], p["rs0"]
        if p["kind"] == "linear":
            return (self.cap, ve + (v0 - ve) * frac, rs0)
        if p["kind"] == "exp":
            return (self.cap, ve + (v0 - ve) * (1.0 - math.exp(-4.0 * frac)) / (1.0 - math.exp(-4.0)),
                    rs0 * (1.0 + 0.5 * (1.0 - frac)))
        if p["kind"] == "plateau":                       # flat voltage plateau (LiFePO4-like) while the impedance rises
            rs = rs0 * (1.0 + 3.0 * (1.0 - frac))
            return (self.cap, v0 if frac > 0.35 else ve + (v0 - ve) * frac / 0.35, rs)
        rs = rs0 * (1.0 + 3.0 * (1.0 - frac))           # sagging voltage, rising impedance
        ocv = ve + (v0 - ve) * math.sqrt(frac)
        return (self.cap, ocv - min(i * rs, 0.1 * ocv), rs)

    def probe(self):
        if self.p.get("raise_at") == "probe":
            self.probe_rec = {"raise": self.p.get("raise_cls", "KeyError")}
            raise self._fault()
        b = self._state(0.0)
        self.probe_rec = {"ret": b}
        return b

    def deplete(self, dt, i):
        k = len(self.dep)
        rec = {"dt": float(dt), "i": float(i)}
        self.dep.append(rec)
        if self.p.get("raise_at") == k:
            rec["raise"] = self.p.get("raise_cls", "KeyError")
            raise self._fault()
        x = float(dt) * float(i)
        if not (math.isfinite(x) and x > 0.0):
            w = 0.5
        else:
            if self.unit is None:
                self.unit = x
            w = 0.5 + x / (x + self.unit)
        self.cap -= self.p["cap0"] / self.p["n"] * w
        if self.cap < 0.0 and self.p.get("clamp", True):
            self.cap = 0.0
        b = self._state(float(i))
        rec["ret"] = b
        return b


def gen_battery(rng, vo, raising=0.0):
    kind = rng.choice(["linear", "exp", "sag", "plateau"])
    a = abs(vo) or 3.7          # a battery model for a Source declared at 0 V: any nominal voltage will do (batt_life overwrites vo)
    v0 = float("%.4g" % (a * rng.uniform(0.85, 1.1)))
    vend = float("%.4g" % (v0 * rng.uniform(0.6, 0.92)))
    cap0 = gen.sd(rng, 0.02, 400.0)
    n = int(round(math.exp(rng.uniform(math.log(3), math.log(200)))))
    p = {"kind": kind, "cap0": cap0, "v0": v0, "vend": vend, "rs0": gen.sd(rng, 1e-3, 0.3), "n": n,
         "clamp": rng.random() < 0.7}
    if rng.random() < 0.12:
        p["rs0"] = 0.0               # an ideal battery model: zero impedance is an impedance like any other (the Source's own rs is irrelevant)
    r = rng.random()
    if r < 0.40:
        end, cutoff = "capacity", float("%.4g" % (vend * rng.uniform(0.3, 0.95)))
    elif r < 0.80:
        end, cutoff = "cutoff", float("%.4g" % (vend + (v0 - vend) * rng.uniform(0.15, 0.85)))
    elif r < 0.88:
        end, cutoff = "above", float("%.4g" % (v0 * rng.uniform(1.0, 1.3)))
    elif r < 0.93:
        end, cutoff = "at-start", v0                       # volt > cutoff is false at equality
    else:
        end, cutoff = "no-capacity", float("%.4g" % (vend * 0.5))
        p["cap0"] = 0.0
    if rng.random() < raising:
        p["raise_at"] = "probe" if rng.random() < 0.15 else rng.randint(0, max(0, min(n, 30)))
        p["raise_cls"] = rng.choice(sorted(EXC))
    return p, cutoff, end


def idle_phase_case(rng):
    """a battery that delivers exactly 0 A in one of the phases (every load off there, no quiescent currents)"""
    v = gen.sd(rng, 2.5, 12)
    comps = [{"name": "B", "kind": "source", "args": {"vo": v, "rs": gen.sd(rng, 1e-3, 0.2)}, "parents": []}]
    names = rng.sample(["sleep", "idle", "tx", "rx", "move"], rng.randint(2, 4))
    idle = rng.choice(names)
    par = "B"
    if rng.random() < 0.5:
        comps.append({"name": "SW", "kind": "pswitch", "args": {"rs": gen.sd(rng, 1e-3, 0.1)}, "parents": ["B"]})
        par = "SW"
    for k in range(rng.randint(1, 3)):
        kind = rng.choice(["pload", "iload"])
        key, lo, hi = ("pwr", 1e-2, 0.5) if kind == "pload" else ("ii", 1e-3, 0.2)
        comps.append({"name": "L%d" % k, "kind": kind, "args": {key: gen.sd(rng, lo, hi)}, "parents": [par],
                      "pconf": {p: (0.0 if p == idle else gen.sd(rng, lo, hi)) for p in names}})
    desc = {"name": "idle", "comps": comps, "phases": {p: gen.sd(rng, 1e-1, 1e3) for p in names}}
    batt, cutoff, end = gen_battery(rng, v, 0.0)
    return {"desc": desc, "battery": "B", "cutoff": cutoff, "batt": batt, "end": end}


def add_phases(rng, desc):
    """2-4 system phases; loads get per-phase values, switchable components a list of active phases"""
    n = rng.randint(2, 4)
    names = rng.sample(["sleep", "idle", "tx", "rx", "move", "boot", "burst"], n)
    desc["phases"] = {p: gen.sd(rng, 1e-2, 1e4) for p in names}
    for c in desc["comps"]:
        if rng.random() < 0.5 or c["kind"] in ("rloss", "vloss", "rectifier"):
            continue
        if c["kind"] in sysdesc.LOADS:
            base = {"pload": (1e-3, 1.0), "iload": (1e-4, 0.3), "rload": (10, 1e5)}[c["kind"]]
            c["pconf"] = {p: gen.sd(rng, base[0], base[1]) for p in names if rng.random() < 0.6}
        else:
            c["pconf"] = [p for p in names if rng.random() < 0.65]
    return desc


def gen_case(rng, raising=0.12, heavy=0.1, p_phases=0.5):
    desc = gen.gen_system(rng, max_nodes=14, polarity=rng.random() < 0.15, p_rail=0.3, heavy=rng.random() < heavy,
                          p_group=0.1)
    if rng.random() < p_phases:
        add_phases(rng, desc)
    srcs = [c for c in desc["comps"] if c["kind"] == "source"]
    used = {p for c in desc["comps"] for p in c["parents"]}
    loaded = [c for c in srcs if c["name"] in used or c.get("rail", "") in used]
    s = rng.choice(loaded if (loaded and rng.random() < 0.93) else srcs)
    name = s["rail"] if (s.get("rail") and rng.random() < 0.5) else s["name"]
    batt, cutoff, end = gen_battery(rng, s["args"]["vo"], raising)
    return {"desc": desc, "battery": name, "cutoff": cutoff, "batt": batt, "end": end}


# ---------------------------------------------------------------------------------------------------
# running the implementation

def source_rows(sys_):
    """{source name: (vo, rs)} from the public params() table"""
    df, e = sysdesc.quiet_call(sys_.params)
    if e is not None:
        raise e
    out = {}
    for _, r in df.iterrows():
        if str(r["Type"]) == "SOURCE":
            out[str(r["Component"])] = (float(r["vo (V)"]), float(r["rs (Ohm)"]))
    return out


def run_impl(case, sys_=None):
    """build, run batt_life with a recorded scripted battery; tqdm (stderr) and warnings are captured by quiet_call"""
    if sys_ is None:
        sys_, e = sysdesc.quiet_call(sysdesc.build, case["desc"])
        if e is not None:
            return None
    before = source_rows(sys_)
    bat = Battery(case["batt"])
    # watchdog: every scripted battery runs out after a bounded number of deplete calls, so batt_life must return
    df, e = sysdesc.quiet_call_timeout(60, sys_.batt_life, case["battery"], cutoff=case["cutoff"], pfunc=bat.probe,
                                       dfunc=bat.deplete)
    after = source_rows(sys_)
    log = None
    if df is not None:
        log = [[float(r[c]) for c in COLS] for _, r in df.iterrows()]
    origin = "ok" if e is None else ("callback" if e is bat.raised else "library")
    return {"sys": sys_, "before": before, "after": after, "bat": bat, "log": log, "exc": e, "origin": origin,
            "outcome": "ok" if e is None else type(e).__name__, "columns": None if df is None else list(df.columns)}


def phase_names(desc):
    ph = list((desc.get("phases") or {}).keys())
    return ph if ph else [""]


def states_before(bat):
    """the (cap, volt, rs) each solve / deplete call starts from"""
    if bat.probe_rec is None or "ret" not in bat.probe_rec:
        return []
    out = [bat.probe_rec["ret"]]
    for d in bat.dep:
        if "ret" in d:
            out.append(d["ret"])
    return out


# ---------------------------------------------------------------------------------------------------
# correspondence: the model replays the call

def cb_wire(rec):
    if "ret" in rec:
        return {"ret": [wire.num(x) for x in rec["ret"]]}
    return {"raise": rec["raise"]}


def model_request(case, obs, carrier):
    desc, bat = case["desc"], obs["bat"]
    ph = phase_names(desc)
    st = states_before(bat)
    table = []
    for k, d in enumerate(bat.dep):
        table.append([wire.num(st[k][1]), wire.num(st[k][2]), ph[k % len(ph)], {"i": wire.num(d["i"])}])
    if obs["origin"] == "library" and bat.probe_rec is not None and "ret" in bat.probe_rec and len(st) == len(bat.dep) + 1:
        # the call was left by an exception that no callback raised, after the last callback returned: the solver's
        k = len(bat.dep)
        e = obs["exc"]
        res = ({"nonconv": True} if isinstance(e, RuntimeError) and "Steady-state not achieved" in str(e)
               else {"err": sysdesc.exc_class(e)})
        table.append([wire.num(st[k][1]), wire.num(st[k][2]), ph[k % len(ph)], res])
    return {"cmd": "batt", "carrier": carrier,
            "nodes": [[c["name"], c["kind"]] for c in desc["comps"]],
            "rails": [[c["name"], "" if c["kind"] in sysdesc.LOADS else c.get("rail", "")] for c in desc["comps"]],
            "battery": case["battery"],
            "params": [[n, wire.num(v[0]), wire.num(v[1])] for n, v in obs["before"].items()],
            "cutoff": wire.num(case["cutoff"]),
            "phases": [[k, wire.num(v)] for k, v in (desc.get("phases") or {}).items()],
            "probe": cb_wire(bat.probe_rec) if bat.probe_rec is not None else {"ret": [wire.num(0.0)] * 3},
            "deplete": [cb_wire(d) for d in bat.dep],
            "solve": table}


def close(a, b):
    return a == b or solved.close(a, b, rel=1e-9, absl=1e-300)      # `==` also covers dt = inf (zero current, no phases)


def correspond(ctx, case, obs, carrier="float"):
    try:
        req = model_request(case, obs, carrier)
    except ValueError:                      # a non-finite number (zero current without phases: dt = inf)
        ctx.stats["corr-skipped:non-finite"] += 1
        return None
    m = ctx.drv.ask(req)
    ctx.traces += 1
    if "bad-op" in m:
        raise RuntimeError("driver rejected a batt request: %r" % (m,))
    tag = case_tag(case)
    mo = m["outcome"] if isinstance(m["outcome"], str) else m["outcome"]["raised"]["cls"]
    if mo != obs["outcome"]:
        ctx.corr(tag, "batt: outcome (ok / exception class)", {"impl": obs["outcome"], "model": m["outcome"],
                                                                "impl_exc": repr(obs["exc"])})
        return m
    calls = [[float(wire.unnum(x)) for x in c] for c in m["calls"]]
    impl_calls = [[d["dt"], d["i"]] for d in obs["bat"].dep]
    if len(calls) != len(impl_calls):
        ctx.corr(tag, "batt: number of deplete calls", {"impl": len(impl_calls), "model": len(calls)})
    else:
        for k, (a, b) in enumerate(zip(impl_calls, calls)):
            if not (close(a[0], b[0]) and close(a[1], b[1])):
                ctx.corr(tag, "batt: deplete arguments (dt, I)", {"call": k, "impl": a, "model": b})
                break
    if obs["outcome"] == "ok":
        log = [[float(wire.unnum(x)) for x in r] for r in m["log"]]
        if len(log) != len(obs["log"]):
            ctx.corr(tag, "batt: number of log rows", {"impl": len(obs["log"]), "model": len(log)})
        else:
            for k, (a, b) in enumerate(zip(obs["log"], log)):
                if not all(close(x, y) for x, y in zip(a, b)):
                    ctx.corr(tag, "batt: log row", {"row": k, "impl": a, "model": b})
                    break
        if obs["columns"][:4] != COLS:
            ctx.corr(tag, "batt: DataFrame columns", {"impl": obs["columns"]})
        # the Source row afterwards (only for a call that returned: nothing here depends on what an exception leaves behind)
        r = m["resolved"]
        if r is None or r not in obs["after"]:
            ctx.corr(tag, "batt: resolved component", {"model": r, "sources": sorted(obs["after"])})
        else:
            mv = (float(wire.unnum(m["vo"])), float(wire.unnum(m["rs"])))
            if not (close(obs["after"][r][0], mv[0]) and close(obs["after"][r][1], mv[1])):
                ctx.corr(tag, "batt: Source row after a returning call", {"impl": obs["after"][r], "model": mv})
    # Sources the call does not address are never written, on any path
    r = m.get("resolved")
    for n, v in obs["before"].items():
        if n != r and obs["after"].get(n) != v:
            ctx.corr(tag, "batt: another Source changed", {"source": n, "before": v, "after": obs["after"].get(n)})
    return m


# ---------------------------------------------------------------------------------------------------
# oracle: the property's clauses on the implementation's observables only

def live(b, cutoff):
    return b[0] > 0.0 and b[1] > cutoff


def names_source(desc, name):
    """the component a valid battery name denotes (a Source's name, or a Source's non-empty rail name)"""
    for c in desc["comps"]:
        if c["kind"] == "source" and (c["name"] == name or (name != "" and c.get("rail", "") == name)):
            return c["name"]
    return None


def indep_current(desc, src, volt, rs, phase):
    """battery output current from a public solve() of a freshly built copy with the source at (volt, rs)"""
    d = copy.deepcopy(desc)
    for c in d["comps"]:
        if c["name"] == src:
            c["args"]["vo"], c["args"]["rs"] = volt, rs
    sys_, e = sysdesc.quiet_call(sysdesc.build, d)
    if e is not None:
        return None, e
    kw = {"vtol": 1e-5, "itol": 1e-6}
    if phase != "":
        kw["phase"] = phase
    df, e = sysdesc.quiet_call(sys_.solve, **kw)
    if e is not None:
        return None, e
    rows = df[df["Component"] == src]
    return float(rows.iloc[0]["Iout (A)"]), None


def tag_kind(case):
    return "batt_life"


def case_tag(case):
    return {k: case[k] for k in ("desc", "battery", "cutoff", "batt")}


def oracle(ctx, case, obs, n_current=6):
    desc, bat, cutoff = case["desc"], obs["bat"], case["cutoff"]
    tag = case_tag(case)
    src = names_source(desc, case["battery"])
    fail = lambda clause, trig, detail: ctx.oracle(tag, clause, "batt_life", trig, detail)   # noqa: E731
    if src is None:
        trig = {"empty_name": case["battery"] == ""}
        if obs["outcome"] != "ValueError" or obs["origin"] != "library":
            fail("not_a_source", trig, {"battery": case["battery"], "outcome": obs["outcome"],
                                        "rows": None if obs["log"] is None else len(obs["log"])})
        if bat.probe_rec is not None or bat.dep:
            fail("not_a_source", dict(trig, callbacks_called=True), {"battery": case["battery"], "deplete_calls": len(bat.dep)})
        return
    if obs["origin"] == "library" and bat.probe_rec is None:
        fail("source_rejected", {}, {"battery": case["battery"], "exc": repr(obs["exc"])})
        return
    if bat.probe_rec is None or "ret" not in bat.probe_rec:
        return                                   # the probe raised: nothing more is claimed
    st = states_before(bat)
    ph = phase_names(desc)
    cap0 = st[0][0]
    # clause call_args: dt per call
    for k, d in enumerate(bat.dep):
        if ph == [""]:
            if d["i"] != 0.0:
                want = (cap0 / d["i"]) * 3.6
                if not (abs(d["dt"] - want) <= 1e-12 * abs(want)):
                    fail("call_dt", {"phases": False}, {"call": k, "dt": d["dt"], "expected": want, "I": d["i"]})
                    break
            else:
                ctx.stats["zero-current-step-without-phases"] += 1
        else:
            want = desc["phases"][ph[k % len(ph)]]
            if d["dt"] != want:
                fail("call_dt", {"phases": True}, {"call": k, "dt": d["dt"], "expected": want, "phase": ph[k % len(ph)]})
                break
    # clause call_args: I_k is the steady-state output current of the battery at (volt_k, rs_k) in phase k mod n
    ks = list(range(len(bat.dep)))
    if len(ks) > n_current:
        ks = sorted(set([0, len(ks) - 1, 1][:n_current] + ctx.rng.sample(ks, max(0, n_current - 3))))
    for k in ks:
        ref, e = indep_current(desc, src, st[k][1], st[k][2], ph[k % len(ph)])
        ctx.stats["independent-solves"] += 1
        if e is not None:
            fail("call_current", {"independent_solve": sysdesc.exc_class(e)},
                 {"call": k, "I": bat.dep[k]["i"], "volt": st[k][1], "rs": st[k][2], "phase": ph[k % len(ph)],
                  "independent_solve_raises": repr(e)})
            break
        if abs(bat.dep[k]["i"] - ref) > 10 * (solved.ATOL + 1e-6 * abs(ref)):
            fail("call_current", {}, {"call": k, "I": bat.dep[k]["i"], "independent_solve": ref, "volt": st[k][1],
                                      "rs": st[k][2], "phase": ph[k % len(ph)]})
            break
    # a solver exception (incl. RuntimeError: no steady state) must be one the independent solve reproduces
    if obs["origin"] == "library" and len(st) == len(bat.dep) + 1:
        k = len(bat.dep)
        ref, e = indep_current(desc, src, st[k][1], st[k][2], ph[k % len(ph)])
        if e is None or type(e).__name__ != obs["outcome"]:
            fail("solver_exception", {}, {"call": k, "batt_life_raised": repr(obs["exc"]), "independent_solve": ref if e is None else repr(e)})
    if obs["outcome"] != "ok":
        return
    log = obs["log"]
    # clause first_row
    if not log or log[0] != [0.0, st[0][0], st[0][1], st[0][2]]:
        fail("first_row", {}, {"row0": log[0] if log else None, "probe": st[0]})
        return
    # clause log_rows / termination
    rets = st[1:]
    if not live(st[0], cutoff):
        want_rows, want_calls = [], 0
    else:
        want_rows = []
        for b in rets:
            if not live(b, cutoff):
                break
            want_rows.append(b)
        want_calls = len(want_rows) + 1
    got_rows = [tuple(r[1:]) for r in log[1:]]
    if got_rows != [tuple(b) for b in want_rows]:
        fail("log_rows", {}, {"logged": len(got_rows), "expected": len(want_rows), "cutoff": cutoff,
                              "first_difference": next((k for k, (a, b) in enumerate(zip(got_rows, want_rows)) if a != tuple(b)), None)})
    if len(bat.dep) != want_calls or (want_calls and live(rets[want_calls - 1], cutoff)):
        fail("termination", {}, {"deplete_calls": len(bat.dep), "expected": want_calls, "cutoff": cutoff,
                                 "last_state": rets[-1] if rets else None})
    for r in log[1:]:
        if not (r[1] > 0.0 and r[2] > cutoff):
            fail("log_rows", {"dead_state_logged": True}, {"row": r, "cutoff": cutoff})
            break
    # clause time: t_{j+1} = t_j + dt_j; strictly increasing when every dt is positive (and finite)
    dts = [d["dt"] for d in bat.dep]
    for j in range(1, len(log)):
        want = log[j - 1][0] + dts[j - 1]
        if not (log[j][0] == want or abs(log[j][0] - want) <= 1e-12 * abs(want)):
            fail("time_steps", {}, {"row": j, "t": log[j][0], "expected": want})
            break
    if all(math.isfinite(x) and x > 0.0 for x in dts):
        for j in range(1, len(log)):
            if not log[j][0] > log[j - 1][0]:
                fail("time_strict", {}, {"row": j, "t": log[j][0], "previous": log[j - 1][0]})
                break
    else:
        ctx.stats["time_strict-precondition-fails(dt<=0 or inf)"] += 1


# ---------------------------------------------------------------------------------------------------
# C17, clause 3: does batt_life put the battery's vo / rs back?   (imported by the C17 check)

def overload(desc, src, when=None):
    """copy of desc with a branch under `src` that makes the solver raise 'Unstable system' (in phase `when` only, if given)"""
    d = copy.deepcopy(desc)
    d["comps"].append({"name": "ovl_R", "kind": "rloss", "args": {"rs": 1e6}, "parents": [src]})
    ld = {"name": "ovl_I", "kind": "iload", "args": {"ii": 1.0}, "parents": ["ovl_R"]}
    if when is not None:
        ld["pconf"] = {when: 1.0}
    d["comps"].append(ld)
    return d


def batt_restore_probe(ctx, desc, k, battery=None, batt=None, cutoff=None):
    """Run batt_life on a fresh build of `desc` and report the Source rows of params() before and after.
    k: None = well-behaved callbacks; "probe" = the probe raises; int = the k-th deplete call (from 0) raises;
       "solver" = the solver raises 'Unstable system' (an overload branch is added; with phases only in the 2nd phase).
    Returns {"k", "battery", "source", "before", "after", "restored", "outcome", "origin", "deplete_calls"}
    or None when the system cannot be built."""
    srcs = [c for c in desc["comps"] if c["kind"] == "source"]
    if battery is None:
        battery = srcs[0]["name"]
    src = names_source(desc, battery)
    if batt is None:
        s = next(c for c in srcs if c["name"] == src)
        batt, cutoff, _ = gen_battery(ctx.rng, s["args"]["vo"], 0.0)
        while batt["cap0"] <= 0.0 or cutoff >= batt["v0"]:
            batt, cutoff, _ = gen_battery(ctx.rng, s["args"]["vo"], 0.0)
        batt["n"] = min(batt["n"], 25)
    batt = dict(batt)
    batt.pop("raise_at", None)
    d = desc
    if k == "solver":
        ph = list((desc.get("phases") or {}).keys())
        d = overload(desc, src, ph[1] if len(ph) > 1 else None)
    elif k is not None:
        batt["raise_at"] = k
        batt.setdefault("raise_cls", "KeyError")
    obs = run_impl({"desc": d, "battery": battery, "cutoff": cutoff, "batt": batt})
    if obs is None:
        return None
    return {"k": k, "battery": battery, "source": src, "before": obs["before"], "after": obs["after"],
            "restored": obs["before"] == obs["after"], "outcome": obs["outcome"], "origin": obs["origin"],
            "deplete_calls": len(obs["bat"].dep), "batt": batt, "cutoff": cutoff}


def batt_restore_sweep(ctx, desc, battery=None, max_k=None):
    """well-behaved run, raising probe, a raise at every deplete call up to the number of calls, a solver exception"""
    base = batt_restore_probe(ctx, desc, None, battery)
    if base is None:
        return []
    out = [base]
    n = base["deplete_calls"] if max_k is None else min(max_k, base["deplete_calls"])
    for k in ["probe"] + list(range(n)) + ["solver"]:
        r = batt_restore_probe(ctx, desc, k, base["battery"], base["batt"], base["cutoff"])
        if r is not None:
            out.append(r)
    # a FRESH battery: the model's first probe returns exactly the voltage and impedance the Source is declared with (the same battery
    # re-scaled, no further random draw) - the restore must not depend on what the probe happened to return (seeded change C17-K)
    s = next((c for c in desc["comps"] if c["kind"] == "source" and c["name"] == base["source"]), None)
    vo = s["args"].get("vo", 0.0) if s else 0.0
    if isinstance(vo, (int, float)) and not isinstance(vo, bool) and vo > 0 and base["batt"]["v0"] > 0:
        f = float(vo) / base["batt"]["v0"]
        fresh = dict(base["batt"], v0=float(vo), vend=base["batt"]["vend"] * f, rs0=float(s["args"].get("rs", 0.0)))
        for k in [None, 1, "solver"]:
            r = batt_restore_probe(ctx, desc, k, base["battery"], fresh, base["cutoff"] * f)
            if r is not None:
                r["fresh_battery"] = True
                out.append(r)
    return out


# ---------------------------------------------------------------------------------------------------

EMPTY_NAME_WITNESS = {
    "desc": {"name": "s", "phases": {}, "comps": [
        {"name": "B", "kind": "source", "args": {"vo": 5.0, "rs": 0.1}, "parents": []},
        {"name": "L", "kind": "iload", "args": {"ii": 0.5}, "parents": ["B"]}]},
    "battery": "", "cutoff": 3.0, "end": "capacity",
    "batt": {"kind": "linear", "cap0": 1.0, "v0": 4.0, "vend": 3.5, "rs0": 0.2, "n": 4, "clamp": True}}


NONCONVERGED_WITNESS = {
    "desc": {"name": "s", "phases": {}, "comps": [
        {"name": "B", "kind": "source", "args": {"vo": 3.4, "rs": 0.06}, "parents": []},
        {"name": "L", "kind": "linreg", "args": {"vo": 5.4, "vdrop": 3.2}, "parents": ["B"]},
        {"name": "P", "kind": "pload", "args": {"pwr": 0.9}, "parents": ["L"]}]},
    "battery": "B", "cutoff": 3.0, "end": "capacity",
    "batt": {"kind": "linear", "cap0": 1.0, "v0": 3.4, "vend": 3.3, "rs0": 0.06, "n": 3, "clamp": True}}


def one(ctx, case, k=0, n_current=6):
    obs = run_impl(case)
    if obs is None:
        ctx.stats["skipped:build"] += 1
        ctx.case(nontrivial=False)
        return False
    if obs["outcome"] == "HarnessTimeout":
        ctx.case(key=[solved.desc_key(case["desc"]), case["battery"], case["cutoff"], sorted(case["batt"].items())], nontrivial=True)
        ctx.oracle(case, "terminates", "batt_life", {}, {"watchdog_s": 60, "deplete_calls_so_far": len(obs["bat"].dep),
                                                          "note": "the scripted battery runs out after finitely many deplete calls"})
        ctx.stats["watchdog_expired"] += 1
        return True
    bat = obs["bat"]
    ctx.case(key=[solved.desc_key(case["desc"]), case["battery"], case["cutoff"], sorted(case["batt"].items())],
             nontrivial=(obs["outcome"] == "ok" and len(bat.dep) >= 3),
             sample={"battery": case["battery"], "battery_model": case["batt"], "cutoff": case["cutoff"],
                     "phases": case["desc"].get("phases"), "deplete_calls": len(bat.dep),
                     "rows": None if obs["log"] is None else len(obs["log"]), "outcome": obs["outcome"]})
    ctx.stats["outcome:%s%s" % (obs["outcome"], "" if obs["origin"] == "ok" else "(%s)" % obs["origin"])] += 1
    ctx.stats["phases:%d" % len(case["desc"].get("phases") or {})] += 1
    ctx.stats["battery-model:%s" % case["batt"]["kind"]] += 1
    ctx.stats["end:%s" % case.get("end", "?")] += 1
    ctx.stats["battery-by:%s" % ("name" if any(c["name"] == case["battery"] for c in case["desc"]["comps"]) else "rail/other")] += 1
    nd = len(bat.dep)
    ctx.stats["deplete-calls:%s" % ("0" if nd == 0 else "<=10" if nd <= 10 else "<=50" if nd <= 50 else ">50")] += 1
    correspond(ctx, case, obs, "float")
    zero_i = phase_names(case["desc"]) == [""] and any(d["i"] == 0.0 for d in bat.dep)
    if k % 4 == 0 and nd <= 60 and not zero_i:        # x / 0 is inf in IEEE and 0 in Lean's Rat: float carrier only there
        correspond(ctx, case, obs, "rat")
    oracle(ctx, case, obs, n_current)
    return True


def invalid_names(ctx, case):
    """names that are not a Source: a non-source component, the rail of one, an unknown name"""
    desc = case["desc"]
    others = [c for c in desc["comps"] if c["kind"] != "source"]
    names = ["no such component"]
    if others:
        names.append(ctx.rng.choice(others)["name"])
    rails = [c["rail"] for c in others if c.get("rail")]
    if rails:
        names.append(ctx.rng.choice(rails))
    for n in names:
        c = dict(case, battery=n)
        ctx.stats["invalid-name-runs"] += 1
        one(ctx, c)


def finding_streams(ctx):
    """regression streams of the repaired findings: batt_life("") (F29), and a system without a steady state (F30)"""
    one(ctx, copy.deepcopy(EMPTY_NAME_WITNESS))
    ctx.stats["empty-name-runs"] += 1
    one(ctx, copy.deepcopy(NONCONVERGED_WITNESS), n_current=1)
    ctx.stats["no-steady-state-runs"] += 1


def c17_notes(ctx, case):
    """record (for C17; no verdict here) what batt_life leaves in the Source"""
    for r in batt_restore_sweep(ctx, case["desc"], case["battery"], max_k=4):
        how = "return" if r["k"] is None else ("probe-raises" if r["k"] == "probe" else
                                               "solver-raises" if r["k"] == "solver" else "deplete-raises")
        if r["k"] == "solver" and r["origin"] != "library":
            how = "solver-did-not-raise"
        ctx.stats["c17-record:%s:%s" % (how, "restored" if r["restored"] else "NOT-restored")] += 1


def run(ctx):
    finding_streams(ctx)
    n = ctx.n(100, 5000)
    skipped = 0
    for k in range(ctx.n(10, 300)):
        if ctx.stats["watchdog_expired"] >= 2:
            return            # batt_life does not terminate: already reported twice with replays, every further case costs a watchdog period
        ctx.stats["idle_phase_stream"] += 1
        one(ctx, idle_phase_case(ctx.rng), k, n_current=ctx.n(6, 10))
    for k in range(n):
        if ctx.stats["watchdog_expired"] >= 2:
            return
        case = gen_case(ctx.rng)
        if not one(ctx, case, k, n_current=ctx.n(6, 10)):
            skipped += 1
            continue
        if k % 7 == 0:
            invalid_names(ctx, case)
        if k % 25 == 3 and names_source(case["desc"], case["battery"]):
            c17_notes(ctx, case)
    if skipped > 0.2 * n:
        raise RuntimeError("more than 20%% of the generated systems could not be built (%d/%d)" % (skipped, n))


def search(ctx):
    for k in range(ctx.n(150, 1500)):
        if ctx.stats["watchdog_expired"] >= 2:
            return
        one(ctx, gen_case(ctx.rng, raising=0.3, heavy=0.3, p_phases=0.7), k)


def replay(ctx, data):
    case = data["case"]
    case.setdefault("end", "?")
    one(ctx, case)
