"""C09 — warnings appear exactly when an applicable limit is exceeded."""
import copy
from .. import gen, oracles, solved, sysdesc, tablecheck

CLAIM = True
MODULE = "SysLoss.Props.C09"
MODULES = ["SysLoss.Props.C09", "SysLoss.Props.C09Table"]
THEOREMS = ["SysLoss.C09." + t for t in (
    "outOfRange_iff", "getWarns_mem", "lookup_eq_some_iff_mem", "checks_mem", "warn_iff", "inactive_no_warn", "warn_applicable", "applicable_table", "default_limits", "boundary_no_warn", "boundary_no_warn_tp",
    # Props/C09Table: the assembled row and its own cells; Subsystem / System total roll-up
    "tokens_joinWarn", "limitKey_clean", "tokens_solvGetWarns", "compRow_cells", "row_cells_some", "row_warn_iff", "row_warn_iff_cells",
    "row_warn_default", "row_no_warn_inside", "row_warn_empty_iff", "row_warn_ne_iff", "row_silent_no_warn", "compRow_warn_indep",
    "comps_rows", "comps_rows_of_topo", "subsystem_warn_iff", "total_warn_iff", "total_warn_iff_nodes")]
LEVEL_TEXT = ("Theorems (Lean 4, any ordered field): a token is in the Warnings cell iff it is applicable to the kind and the documented quantity (vi, vo, vd=|vi|-|vo|, ii, io, pi, po=pi-pl, pl, tr, tp) lies outside the configured or default [min,max] - by magnitude, tp by signed value; the applicability table; silence for components whose phase configuration omits the phase (sources and series losses are always evaluated); strict comparisons at the boundary. Tied to the code on every run with limits planted at 0.5x / exactly at / 1.5x the cell values of a first solve: Warnings cells (token sets) against the model's certificate evaluated in IEEE doubles, and an oracle that recomputes the tokens and the Subsystem / System total roll-up from the row cells.")
LEVEL_NOTE = ('Props/C09Table states the property on the assembled table: a token is in a row\'s Warnings cell iff the key applies to the kind, the component is not silenced in the phase and the quantity computed from THE ROW\'S OWN CELLS is out of range (`row_warn_iff`), absent keys are judged against the defaults (`row_warn_default`), and Subsystem / System total say Yes iff one of their rows warns (`subsystem_warn_iff`, `total_warn_iff_nodes`).')
RULE = ("two-pass generation: a random tree (both polarities, thermal resistances, phases on 40%) is first solved without limits, "
        "then limits are planted on random subsets of the 10 keys with [min,max] placed at 0.5x, exactly at, and 1.5x the value the "
        "unlimited system shows for that cell (about a third fire, a third sit on the boundary); non-trivial = at least one planted limit")
ASSUMPTIONS = ["the certificate for this property is evaluated by the model in IEEE doubles (same operations as the Python), because "
               "limits planted exactly on a cell value make the strict comparisons sensitive to the last bit"]


def plant(rng, desc, obs):
    """limits relative to the values of the first phase of the unlimited solve"""
    rows = {r["name"]: r for r in obs["phases"][rng.randrange(len(obs["phases"]))]["rows"]}
    d = copy.deepcopy(desc)
    for c in d["comps"]:
        if rng.random() < 0.25:
            continue
        q = oracles.row_quantities(rows[c["name"]])
        lim = {}
        keys = rng.sample(oracles.LIMIT_KEYS, rng.randint(1, 5))
        for k in keys:
            x = q.get(k, 25.0)
            mode = rng.choice(["lo_fire", "hi_fire", "boundary_hi", "boundary_lo", "inside", "inside"])
            if k == "tp":
                lo, hi = {"lo_fire": (x + 5, x + 50), "hi_fire": (x - 50, x - 5), "boundary_hi": (x - 30, x),
                          "boundary_lo": (x, x + 30), "inside": (x - 20, x + 20)}[mode if mode != "inside" else "inside"]
            else:
                a = abs(x)
                if a == 0.0:
                    lo, hi = (0.0, 1.0) if mode != "lo_fire" else (0.5, 2.0)
                else:
                    lo, hi = {"lo_fire": (1.5 * a, 3 * a), "hi_fire": (0.0, 0.5 * a), "boundary_hi": (0.0, a),
                              "boundary_lo": (a, 3 * a), "inside": (0.5 * a, 1.5 * a)}[mode]
                if rng.random() < 0.15:
                    lo, hi = -lo, -hi          # limits are compared by magnitude
            lim[k] = [float(lo), float(hi)]
            ctx_stats[mode] = ctx_stats.get(mode, 0) + 1
        c["args"]["limits"] = lim
    return d


ctx_stats = {}


def gen_default(rng):
    """megawatt-scale system whose cells exceed the DEFAULT limits (0 ... 1e6): components carry no limits at all or a
    partial limits dict whose keys are comfortably inside range, so every warning must come from a documented default"""
    V = float(rng.choice([1500.0, 4000.0, 25000.0, 2.5e6]))
    if rng.random() < 0.3:
        V = -V
    P = float(rng.choice([2.5e6, 8e6, 4e7]))
    comps = [{"name": "S1", "kind": "source", "args": {"vo": V}, "parents": []}]
    par = "S1"
    if rng.random() < 0.7:
        mid = rng.choice(["converter", "pswitch", "rloss"])
        args = {"converter": {"vo": float(rng.choice([800.0, 3.3e6])), "eff": 0.9},
                "pswitch": {"rs": 1e-6}, "rloss": {"rs": 1e-6}}[mid]
        comps.append({"name": "M1", "kind": mid, "args": args, "parents": ["S1"]})
        par = "M1"
    comps.append({"name": "P1", "kind": "pload", "args": {"pwr": P, "rt": float(rng.choice([0.0, 0.5, 2.0]))}, "parents": [par]})
    comps.append({"name": "I1", "kind": "iload", "args": {"ii": float(rng.choice([1.0, 2e6]))}, "parents": [par]})
    for c in comps:
        r = rng.random()
        if r < 0.5:
            keys = [k for k in oracles.LIMIT_KEYS if k != "tp"]
            c["args"]["limits"] = {k: [0.0, 1e12] for k in rng.sample(keys, rng.randint(1, 3))}
            ctx_stats["default_stream:partial_limits"] = ctx_stats.get("default_stream:partial_limits", 0) + 1
        else:
            ctx_stats["default_stream:no_limits"] = ctx_stats.get("default_stream:no_limits", 0) + 1
    return {"name": "sys", "comps": comps, "phases": {}}


def gen_fn(rng):
    if rng.random() < 0.1:
        return gen_default(rng)
    if rng.random() < 0.08:
        # loads switched to an explicit 0 in one phase (and left out of their table in another) on a rail that violates their input-voltage
        # window: a load that is listed for a phase is judged in that phase, whatever value it is listed with
        d = gen.zero_vs_omitted(rng)
        for c in d["comps"]:
            if c["kind"] in ("pload", "iload"):
                c["args"]["limits"] = {"vi": [0.0, 1e-3]} if rng.random() < 0.7 else {"vi": [1e3, 1e4]}
        return d
    for _ in range(20):
        # no build detours here: limits sit exactly on cell values, so the float summation order of the children must be the plain one
        base = gen.gen_system(rng, phases=0.4, p_rt=0.6, max_nodes=14, p_neg_src_rs=0.0, n_sources=rng.choice([1, 1, 2, 3]), p_detour=0.0, p_bridge=0.0, p_moved=0.0)
        sys_, df, err = solved.solve_case(base, {"vtol": 1e-10, "itol": 1e-10})
        if err is None:
            return plant(rng, base, sysdesc.observe(df))
    return base


def boundary_ulp(ctx, desc, obs, m):
    """a Warnings disagreement between model and implementation is not a disagreement when every disputed token's
    quantity sits on its limit to within 1e-9: table interpolation and child-current sums are not bit-reproducible"""
    if m["col"] != "warn":
        return False
    amb = ctx.__dict__.setdefault("_ambiguous", set())
    row = [r for p in obs["phases"] if p["phase"] == m["phase"] for r in p["rows"] if r["name"] == m["row"]]
    if not row:
        # a Subsystem / System total roll-up that differs only because a component row of this phase sits on a limit to the last bit
        if (id(desc), m["phase"]) in amb and (m["row"].startswith("Subsystem ") or m["row"] == "System total"):
            ctx.stats["boundary_last_bit_ambiguous_rollup"] += 1
            return True
        return False
    c = [c for c in desc["comps"] if c["name"] == m["row"]][0]
    q = oracles.row_quantities(row[0])
    lim = c["args"].get("limits") or {}
    for tok in set(m["impl"].split()) ^ set(m["model"].split()):
        if tok not in q:
            return False
        lo, hi = lim.get(tok, oracles.DEFAULT_LIM[tok])
        x = q[tok] if tok == "tp" else abs(q[tok])
        a, b = (lo, hi) if tok == "tp" else (abs(lo), abs(hi))
        if min(abs(x - a), abs(x - b)) > 1e-9 * max(abs(x), 1e-30):
            return False
    ctx.stats["boundary_last_bit_ambiguous"] += 1
    amb.add((id(desc), m["phase"]))
    return True


tablecheck.make(globals(), cols=["pwr", "loss", "tr", "tp"], textcols=["warn", "typ"], oracle=oracles.o_c09, gen_fn=gen_fn,
                counts=(150, 4000), nontrivial=lambda desc, obs: any(c["args"].get("limits") for c in desc["comps"]), sweeps=False,
                mismatch_filter=boundary_ulp)

_run = run  # noqa: F821
_replay_table = replay  # noqa: F821


def replay(ctx, data):
    case = data["case"]
    if isinstance(case, dict) and case.get("kind_order"):
        from .. import isolate
        descs, pos = case["descs"], case["position"]
        seq = isolate.solve_sequence(descs)
        solo = isolate.solve_sequence([descs[pos]])[0]
        if seq[pos] != solo:
            ctx.oracle(case, "warn_iff", "order", {"kind_order": True},
                       {"what": "the Warnings of a system depend on what the process solved before it", "after_the_others": seq[pos], "alone": solo})
        return
    return _replay_table(ctx, data)


def kind_order_stream(ctx):
    """What a component warns about must not depend on which KINDS of components the process has analysed before (a cache filled per
    class, a default shared by subclasses).  One small system per kind family (the three load kinds; regulator / switch / mux;
    series loss / rectifier), every component carrying violated limits on several keys; the systems are solved in a fresh
    interpreter, each ALONE (reference) and all in a shuffled order: every Warnings cell must be the same."""
    from .. import isolate
    rng = ctx.rng

    full = [True]

    def lim():
        keys = ["vi", "vo", "ii", "io", "pi", "po", "pl"]
        return {k: [0.0, 1e-6] for k in (keys if full[0] else rng.sample(keys, rng.randint(3, 6)))}

    def one_sys(kinds):
        comps = [{"name": "S", "kind": "source", "args": {"vo": 12.0, "limits": lim()}, "parents": []}]
        par = "S"
        for j, k in enumerate(kinds):
            a = {"pload": {"pwr": 0.5}, "iload": {"ii": 0.1}, "rload": {"rs": 50.0}, "linreg": {"vo": 3.3}, "pswitch": {"rs": 0.1},
                 "pmux": {"rs": 0.1}, "converter": {"vo": 5.0, "eff": 0.9}, "rloss": {"rs": 0.5}, "vloss": {"vdrop": 0.3},
                 "rectifier": {"vdrop": 0.4}}[k]
            c = {"name": "%s%d" % (k, j), "kind": k, "args": dict(a, limits=lim()), "parents": [par]}
            comps.append(c)
            if k in ("pload", "iload", "rload"):
                continue
            par = c["name"]
        if comps[-1]["kind"] not in ("pload", "iload", "rload"):
            comps.append({"name": "L", "kind": "iload", "args": {"ii": 0.05, "limits": lim()}, "parents": [par]})
        return {"name": "s", "comps": comps, "phases": {}}
    fams = [["pload"], ["iload"], ["rload"], ["pload", "iload", "rload"], ["linreg"], ["pswitch"], ["pmux"], ["converter"],
            ["rloss"], ["vloss"], ["rectifier"]]
    for rep in range(ctx.n(3, 12)):
        pick = rng.sample(fams, rng.randint(3, 5))
        if rep == 0:
            pick = [["pload"], ["iload"], ["rload"]]
        descs = [one_sys(list(f)) for f in pick]
        full[0] = False                      # the first sequence carries every key on every component, the others random subsets
        solo = [isolate.solve_sequence([d])[0] for d in descs]
        order = list(range(len(descs)))
        rng.shuffle(order)
        if rep == 0:
            order = [0, 1, 2]
        seq = isolate.solve_sequence([descs[k] for k in order])
        ctx.stats["kind_order:sequences"] += 1
        ctx.case(key=["kind_order", pick, order], nontrivial=True, sample={"stream": "kind_order", "families": pick, "order": order})
        for pos, k in enumerate(order):
            if seq[pos] != solo[k]:
                a = {(r[0], r[1]): r[2] for r in seq[pos].get("rows", [])}
                b = {(r[0], r[1]): r[2] for r in solo[k].get("rows", [])}
                diff = [[list(key), a.get(key), b.get(key)] for key in sorted(set(a) | set(b)) if a.get(key) != b.get(key)]
                ctx.oracle({"kind_order": True, "descs": [descs[j] for j in order], "position": pos}, "warn_iff", "order", {"kind_order": True},
                           {"what": "the Warnings of a system depend on what the process solved before it",
                            "solved_before": [pick[j] for j in order[:pos]], "system": pick[k],
                            "cells (phase, component): [after the others, alone in a fresh process]": diff[:6] or "other cells differ",
                            "error_after_others": seq[pos].get("error"), "error_alone": solo[k].get("error")})
                return


def run(ctx):
    from .. import solved as S
    from .. import tables
    kind_order_stream(ctx)
    tables.compare(ctx, what=("limits",))                            # applicable keys per class, LIMITS_DEFAULT: model vs live objects
    S.run_witnesses(ctx, per_case)                                   # noqa: F821
    S.run_cases(ctx, ctx.n(150, 4000), gen_fn, per_case, None, carrier="float")   # noqa: F821
    for k, v in ctx_stats.items():
        ctx.stats["planted:" + k] += v
