"""C20 — PCB trace and plane resistance follow the documented formulas (sysloss.utils.trace_res / plane_res).

proof step      tools/gen_utils.py translates the current utils.py to lean/SysLoss/Gen/Utils.lean (pre_build), the theorems of
                lean/SysLoss/Props/C20.lean are about that generated text
correspondence  the generated definitions evaluated at Rat by lean/UtilsEval.lean (standalone, not the shared driver) on the
                same argument tuples as the Python functions (floats transferred exactly), relative error <= 1e-12
oracle / search the documented formulas, the documented defaults and the seven algebraic corollaries evaluated directly on the
                implementation (Fractions / relative tolerance 1e-9), independent of the translator and of Lean
"""
import importlib, importlib.util, math, os, subprocess, sys
from fractions import Fraction as F

from .. import wire

CLAIM = True
LEVEL_TEXT = ("Theorems (Lean 4, any linearly ordered field) about the Lean text generated from utils.py by an ast translator on "
              "every run: trace_res = rho*L/A*(1+tcr*(temp-20)) with A=(w1+w2)/2*t in SI units for lengths in mm, plane_res = "
              "(rho/t)*(l/w)*(1+tcr*(temp-20)); proportional to length and rho, inversely proportional to thickness and (mean) "
              "width, affine in temp, symmetric in w1/w2, trace(W,W,L,t)=plane(W,L,t); defaults rho=1.724e-8, temp=20, tcr=0.00386. "
              "The generated definitions are evaluated in exact rationals on the same random argument tuples as the Python functions "
              "(relative error <= 1e-12, keyword defaults exercised) and the documented formulas and corollaries are evaluated on the "
              "implementation itself (failing-input search).")
LEVEL_NOTE = ("Proof is over exact field arithmetic for positive dimensions; IEEE rounding and ZeroDivisionError (zero dimensions) "
              "are outside the theorems and covered only by the 1e-12 correspondence run.")
LEVEL_NOTE = LEVEL_NOTE + (' Argument FORMS beyond Python floats (numpy integer scalars of every width, float64 temperature arrays re-used across calls) are covered by the oracle only; the theorems are about the numbers.')
MODULE = "SysLoss.Props.C20"
THEOREMS = ["SysLoss.C20." + t for t in [
    "trace_formula", "plane_formula",
    "trace_prop_length", "trace_prop_rho", "trace_inv_thickness", "trace_inv_width", "trace_affine_temp", "trace_symm",
    "plane_prop_length", "plane_prop_rho", "plane_inv_thickness", "plane_inv_width", "plane_affine_temp",
    "trace_eq_plane", "defaults"]]
TRUSTED = ["tools/gen_utils.py (Python ast -> Lean translator for utils.py; the theorems are about its output, which is tied to the "
           "running Python by exact Rat evaluation through lean/UtilsEval.lean on every run)"]
RULE = ("argument tuples for trace_res / plane_res: fixed corner tuples (docstring examples, w1=w2, temp=20, extreme decades, integer "
        "arguments) then random tuples, every dimension log-uniform over 1e-4..1e4 mm, rho over 1e-10..1e-4 Ohm-m, temp 20 / uniform "
        "0.5..400 / log-uniform 1e-3..1e3 degC, tcr log-uniform 1e-8..2e-2 per degC (so 1+tcr*(temp-20) >= 0.6: well conditioned), each "
        "of rho/temp/tcr omitted with probability 0.3 (keyword default); non-trivial = temperature factor != 1 and w1 != w2 (trace) "
        "resp. l != w (plane) and the call returned a finite float; distinct by the full argument tuple")
ASSUMPTIONS = ["IEEE-754 rounding is outside the theorems: Python floats are compared with the exact rational value of the generated "
               "definition under relative tolerance 1e-12 (oracle clauses: 1e-9)",
               "the translator reads float arithmetic as exact field arithmetic and decimal literals as the rationals of their text; "
               "x/0 raises in Python and is 0 in Lean — excluded by the positivity hypotheses",
               "generated tuples keep 1+tcr*(temp-20) >= 0.6, where the temperature factor is well conditioned in floating point"]
EXPLANATION = ("theorems: documented closed forms + 7 corollaries + defaults about SysLoss.Gen.* (generated from utils.py this run); "
               "correspondence: Python result vs Rat evaluation of the generated definitions on identical tuples, rel. err <= 1e-12; "
               "oracle: documented formulas / defaults / corollaries evaluated on the implementation alone")

VERIF = os.path.dirname(os.path.dirname(os.path.dirname(os.path.abspath(__file__))))
LEAN = os.path.join(VERIF, "lean")
GEN_LEAN = os.path.join(LEAN, "SysLoss", "Gen", "Utils.lean")
GEN_OLEAN = os.path.join(LEAN, ".lake", "build", "lib", "lean", "SysLoss", "Gen", "Utils.olean")
CORR_RTOL = 1e-12
ORACLE_RTOL = 1e-9
MAX_ORACLE_REPORTS = 25

DOC_RHO, DOC_TEMP, DOC_TCR = F("1.724e-8"), F(20), F("0.00386")
SIG = {"trace_res": (["w1_mm", "w2_mm", "l_mm", "t_mm"], ["rho", "temp", "tcr"]),
       "plane_res": (["w", "l", "t_mm"], ["rho", "temp", "tcr"])}

_state = {"gen_ok": None, "gen_msg": ""}


# ------------------------------------------------------------------------------------------------ plumbing
def pre_build():
    """regenerate lean/SysLoss/Gen/Utils.lean from the current utils.py; (ok, msg)"""
    p = subprocess.run([sys.executable, os.path.join(VERIF, "tools", "gen_utils.py")], stdout=subprocess.PIPE,
                       stderr=subprocess.STDOUT, text=True, timeout=120)
    lines = [l for l in p.stdout.strip().splitlines() if l.strip() and not l.startswith("WARNING: conda")]
    msg = lines[-1] if lines else "gen_utils: no output (exit %d)" % p.returncode
    _state["gen_ok"], _state["gen_msg"] = (p.returncode == 0), msg
    return p.returncode == 0, msg


def impl():
    """the implementation under test: sysloss.utils, live from /repo/src (VERIF_UTILS_PY: a copy, for testing the check itself)"""
    alt = os.environ.get("VERIF_UTILS_PY")
    if alt:
        spec = importlib.util.spec_from_file_location("sysloss_utils_under_test", alt)
        mod = importlib.util.module_from_spec(spec)
        spec.loader.exec_module(mod)
        return mod
    return importlib.import_module("sysloss.utils")


def lean_fresh():
    """is the compiled generated module the one written from the current source?"""
    if _state["gen_ok"] is False:
        return False, "translator failed (%s): generated Lean text is stale, Rat evaluation skipped" % _state["gen_msg"]
    try:
        if os.path.getmtime(GEN_OLEAN) + 1e-6 < os.path.getmtime(GEN_LEAN):
            return False, "SysLoss.Gen.Utils not rebuilt since it was regenerated: Rat evaluation skipped"
    except OSError:
        return False, "SysLoss.Gen.Utils not built: Rat evaluation skipped"
    return True, ""


def lean_eval(cases):
    """[case] -> [Fraction | ('bad', msg)] through lean/UtilsEval.lean (batch, one process)"""
    import json
    inp = "".join(json.dumps({"fn": c["fn"], "args": {k: wire.num(v) for k, v in c["args"].items()}}) + "\n" for c in cases)
    last = ""
    for attempt in range(2):       # a concurrent `lake build` of another agent may be rewriting an .olean: retry once
        p = subprocess.run(["lake", "env", "lean", "--run", "UtilsEval.lean"], cwd=LEAN, input=inp, stdout=subprocess.PIPE,
                           stderr=subprocess.PIPE, text=True, timeout=1500)
        lines = [l for l in p.stdout.splitlines() if l.startswith("{")]
        if p.returncode == 0 and len(lines) == len(cases):
            out = []
            for l in lines:
                j = json.loads(l)
                out.append(wire.unnum(j["r"]) if "r" in j else ("bad", j.get("bad-op", l)))
            return out
        last = "exit %d, %d answers for %d cases: %s" % (p.returncode, len(lines), len(cases), (p.stderr or p.stdout)[-600:])
    raise RuntimeError("UtilsEval failed: " + last)


# ------------------------------------------------------------------------------------------------ cases
def lu(rng, a, b):
    return 10.0 ** rng.uniform(a, b)


def mk(fn, k=2.5, **args):
    return {"fn": fn, "args": args, "k": k}


def corner_cases():
    """simple tuples first: the first failing input reported for a broken formula is a readable one"""
    cs = [
        mk("trace_res", w1_mm=1.0, w2_mm=3.0, l_mm=10.0, t_mm=0.5, rho=2e-8, temp=70.0, tcr=0.004, k=3.0),
        mk("plane_res", w=2.0, l=10.0, t_mm=0.5, rho=2e-8, temp=70.0, tcr=0.004, k=3.0),
        mk("trace_res", w1_mm=1.0, w2_mm=3.0, l_mm=10.0, t_mm=0.5),
        mk("plane_res", w=2.0, l=10.0, t_mm=0.5),
        mk("trace_res", w1_mm=1.0, w2_mm=3.0, l_mm=10.0, t_mm=0.5, temp=70.0),
        mk("plane_res", w=2.0, l=10.0, t_mm=0.5, temp=70.0),
        mk("trace_res", w1_mm=1.0, w2_mm=3.0, l_mm=10.0, t_mm=0.5, rho=2e-8),
        mk("trace_res", w1_mm=1.0, w2_mm=3.0, l_mm=10.0, t_mm=0.5, tcr=0.004, temp=5.0),
        # docstring examples
        mk("trace_res", w1_mm=1, w2_mm=1, l_mm=15, t_mm=35e-3),
        mk("trace_res", w1_mm=7 * 0.0254, w2_mm=6 * 0.0254, l_mm=350 * 0.0254, t_mm=2 * 0.034798, temp=50),
        mk("plane_res", w=25, l=80, t_mm=35e-3),
        mk("plane_res", w=800, l=500, t_mm=2 * 0.034798, temp=50),
        # tests/unit/test_utils.py geometry
        mk("trace_res", w1_mm=0.7, w2_mm=0.6, l_mm=9.0, t_mm=0.07), mk("trace_res", w1_mm=0.7, w2_mm=0.6, l_mm=9.0, t_mm=0.07, temp=50.0),
        mk("plane_res", w=25.0, l=80.0, t_mm=0.035, temp=50.0),
        # temp = 20 exactly, with a tcr
        mk("trace_res", w1_mm=0.2, w2_mm=0.15, l_mm=40.0, t_mm=0.035, temp=20.0, tcr=0.01),
        mk("plane_res", w=3.0, l=7.0, t_mm=0.07, temp=20, tcr=0.01),
        # below 20 degC, large admissible tcr
        mk("trace_res", w1_mm=0.2, w2_mm=0.15, l_mm=40.0, t_mm=0.035, temp=0.001, tcr=0.02, rho=1e-7),
        mk("plane_res", w=3.0, l=7.0, t_mm=0.07, temp=0.001, tcr=0.02, rho=1e-7),
        # square plane, rectangular trace
        mk("plane_res", w=5.0, l=5.0, t_mm=0.035), mk("trace_res", w1_mm=5.0, w2_mm=5.0, l_mm=5.0, t_mm=0.035, temp=85.0),
        # very asymmetric trapezoid
        mk("trace_res", w1_mm=1e-4, w2_mm=1e4, l_mm=1.0, t_mm=1.0, temp=30.0), mk("trace_res", w1_mm=1e4, w2_mm=1e-4, l_mm=1.0, t_mm=1.0, temp=30.0),
        # powers of two
        mk("trace_res", w1_mm=0.25, w2_mm=0.5, l_mm=64.0, t_mm=0.03125, rho=2.0 ** -26, temp=52.0, tcr=2.0 ** -8, k=4.0),
        mk("plane_res", w=0.25, l=64.0, t_mm=0.03125, rho=2.0 ** -26, temp=52.0, tcr=2.0 ** -8, k=0.5),
    ]
    # extreme decades in every position
    for lo, hi in [(1e-4, 1e4), (1e4, 1e-4)]:
        cs.append(mk("trace_res", w1_mm=lo, w2_mm=lo, l_mm=hi, t_mm=lo, rho=1e-4, temp=1e3, tcr=2e-2, k=100.0))
        cs.append(mk("trace_res", w1_mm=hi, w2_mm=hi, l_mm=lo, t_mm=hi, rho=1e-10, temp=1e-3, tcr=1e-8, k=0.01))
        cs.append(mk("plane_res", w=lo, l=hi, t_mm=lo, rho=1e-4, temp=1e3, tcr=2e-2, k=100.0))
        cs.append(mk("plane_res", w=hi, l=lo, t_mm=hi, rho=1e-10, temp=1e-3, tcr=1e-8, k=0.01))
    return cs


def gen_case(rng, span=4.0):
    fn = "trace_res" if rng.random() < 0.55 else "plane_res"
    req, optn = SIG[fn]
    args = {}
    ints = rng.random() < 0.08
    for p in req:
        if ints and p != "t_mm":
            args[p] = rng.randint(1, 2000)
        else:
            args[p] = lu(rng, -span, span)
    if fn == "trace_res" and rng.random() < 0.1:
        args["w2_mm"] = args["w1_mm"]
    if rng.random() >= 0.3:
        args["rho"] = lu(rng, -10, -4)
    if rng.random() >= 0.3:
        u = rng.random()
        args["temp"] = 20.0 if u < 0.1 else (rng.uniform(0.5, 400.0) if u < 0.6 else lu(rng, -3, 3))
        if rng.random() < 0.05:
            args["temp"] = int(args["temp"]) + 1
    forms = {}
    if rng.random() < 0.06:
        # the same numbers as numpy integer scalars (a logged temperature column with a compact dtype, dimensions counted in mm):
        # a temperature is a temperature whatever its storage type, and 5 degC is below the 20 degC reference
        args["temp"] = rng.choice([rng.randint(1, 19), rng.randint(1, 120)])
        forms["temp"] = rng.choice(["uint8", "uint16", "uint32", "uint64", "int8", "int16", "int32", "int64"])
        if ints and rng.random() < 0.5:
            for p in req:
                if isinstance(args[p], int):
                    forms[p] = rng.choice(["uint16", "uint32", "int32", "int64"])
    if forms:
        return {"fn": fn, "args": args, "k": lu(rng, -2, 2), "np": forms}
    if rng.random() >= 0.3:
        args["tcr"] = lu(rng, -8, math.log10(2e-2))
        if rng.random() < 0.1:
            # a strongly temperature dependent material (PTC-like), cold: the documented expression is affine in temp wherever it is
            # evaluated - also where 1 + tcr*(temp-20) comes out at or below zero
            args["tcr"] = float("%.3g" % lu(rng, math.log10(0.05), 0.0))
            args["temp"] = float("%.3g" % rng.uniform(0.5, 19.5))
        elif rng.random() < 0.08:
            # a coefficient above 1 per degC is a number like any other (the unit is 1/degC - it is not re-read as ppm or per cent)
            args["tcr"] = float("%.3g" % lu(rng, 0.0, 4.0))
    return {"fn": fn, "args": args, "k": lu(rng, -2, 2)}


# ------------------------------------------------------------------------------------------------ documented statement
def full_args(c):
    a = dict(c["args"])
    a.setdefault("rho", DOC_RHO)
    a.setdefault("temp", DOC_TEMP)
    a.setdefault("tcr", DOC_TCR)
    return {k: (v if isinstance(v, F) else F(v)) for k, v in a.items()}


def documented(fn, a):
    """the documented formula, exact; a: name -> Fraction, all keywords present"""
    tf = 1 + a["tcr"] * (a["temp"] - 20)
    if fn == "trace_res":
        length_m = a["l_mm"] / 1000
        area_m2 = ((a["w1_mm"] + a["w2_mm"]) / 2 * a["t_mm"]) / 10 ** 6
        return a["rho"] * length_m / area_m2 * tf
    sheet = a["rho"] / (a["t_mm"] / 1000)
    return sheet * (a["l"] / a["w"]) * tf


def rel_off(x, want):
    """relative deviation of float x from exact/float `want` (inf when x is unusable)"""
    if isinstance(x, bool) or not isinstance(x, (int, float)) or not math.isfinite(x):
        return math.inf
    w = want if isinstance(want, F) else F(want)
    if w == 0:
        return 0.0 if x == 0 else math.inf
    return float(abs(F(x) - w) / abs(w))


class Impl:
    def __init__(self):
        self.mod = impl()

    def call(self, fn, **kw):
        """-> float, or ('raises', 'Class: msg')"""
        forms = getattr(self, "forms", None)
        if forms:
            import numpy
            kw = {k: (getattr(numpy, forms[k])(v) if k in forms and isinstance(v, int) and not isinstance(v, bool) else v) for k, v in kw.items()}
        try:
            r = getattr(self.mod, fn)(**kw)
        except Exception as e:           # every exception on positive arguments contradicts "returns ..."
            return ("raises", "%s: %s" % (type(e).__name__, e))
        try:
            return float(r)
        except Exception:
            return ("raises", "returned %r" % (r,))


def oracle(ctx, im, c):
    """the property's statement on the implementation's own return values; returns the value of the call as given"""
    fn, given, k = c["fn"], c["args"], c["k"]
    im.forms = c.get("np")         # arguments passed as numpy integer scalars of that dtype (wherever they keep their given value)
    fa = full_args(c)
    dflt = {"rho": float(DOC_RHO), "temp": 20.0, "tcr": float(DOC_TCR)}
    ex = {p: given.get(p, dflt.get(p)) for p in SIG[fn][0] + SIG[fn][1] if p in given or p in dflt}   # every keyword explicit

    def report(clause, detail, case=None):
        case = case or c
        if ctx.stats["oracle_failures"] < MAX_ORACLE_REPORTS:
            ctx.oracle(case, clause, case["fn"], {}, detail)
        ctx.stats["oracle_failures"] += 1

    def check(clause, got, want, what, names=("lhs", "rhs"), case=None, **extra):
        if isinstance(got, tuple):
            report(clause, {"what": what, "raised": got[1], **extra}, case)
            return False
        if isinstance(want, tuple):
            report(clause, {"what": what, "raised": want[1], **extra}, case)
            return False
        off = rel_off(got, want)
        if off > ORACLE_RTOL:
            report(clause, {"what": what, names[0]: got, names[1]: float(want), "relative_deviation": off, **extra}, case)
            return False
        return True

    r_given = im.call(fn, **given)
    r = im.call(fn, **ex)
    omitted = [p for p in SIG[fn][1] if p not in given]
    # 1. documented formula, every keyword explicit
    ok = check("formula", r, documented(fn, fa), "%s(%s) vs documented formula" % (fn, ", ".join("%s=%r" % kv for kv in ex.items())),
               names=("implementation", "documented"))
    # 2. documented defaults for the omitted keywords
    if omitted:
        check("defaults" if ok else "formula", r_given, documented(fn, fa),
              "%s(%s) with %s omitted vs documented formula at rho=1.724e-8, temp=20, tcr=0.00386"
              % (fn, ", ".join("%s=%r" % kv for kv in given.items()), "/".join(omitted)), names=("implementation", "documented"),
              omitted=omitted)
    if isinstance(r, tuple):
        return r_given
    # 3. corollaries, on the implementation alone
    lname = "l_mm" if fn == "trace_res" else "l"
    check("prop_length", im.call(fn, **{**ex, lname: k * ex[lname]}), k * r, "R(k*l) = k*R(l)", k=k)
    check("prop_rho", im.call(fn, **{**ex, "rho": k * ex["rho"]}), k * r, "R(k*rho) = k*R(rho)", k=k)
    check("inv_thickness", im.call(fn, **{**ex, "t_mm": k * ex["t_mm"]}), r / k, "R(k*t) = R(t)/k", k=k)
    if fn == "trace_res":
        w1, w2 = ex["w1_mm"], ex["w2_mm"]
        check("inv_width", im.call(fn, **{**ex, "w1_mm": k * w1, "w2_mm": k * w2}), r / k, "R(k*w1, k*w2) = R(w1, w2)/k", k=k)
        d = 0.25 * w2
        check("inv_width", im.call(fn, **{**ex, "w1_mm": w1 + d, "w2_mm": w2 - d}), r, "R depends on the widths through w1+w2 only",
              shift=d)
        check("symm", im.call(fn, **{**ex, "w1_mm": w2, "w2_mm": w1}), r, "R(w1, w2) = R(w2, w1)")
        # when this function obeys its own formula here, a mismatch is the other function's: file it under that call
        other = {"fn": "plane_res", "k": k, "args": {"w": w1, "l": ex["l_mm"], "t_mm": ex["t_mm"], "rho": ex["rho"],
                                                     "temp": ex["temp"], "tcr": ex["tcr"]}}
        check("trace_eq_plane", im.call("trace_res", **{**ex, "w2_mm": w1}), im.call("plane_res", **other["args"]),
              "trace_res(w1=W, w2=W, l_mm=L, t) = plane_res(w=W, l=L, t)", names=("trace_res", "plane_res"),
              case=other if ok else None, W=w1)
    else:
        check("inv_width", im.call(fn, **{**ex, "w": k * ex["w"]}), r / k, "R(k*w) = R(w)/k", k=k)
        other = {"fn": "trace_res", "k": k, "args": {"w1_mm": ex["w"], "w2_mm": ex["w"], "l_mm": ex["l"], "t_mm": ex["t_mm"],
                                                     "rho": ex["rho"], "temp": ex["temp"], "tcr": ex["tcr"]}}
        check("trace_eq_plane", im.call("trace_res", **other["args"]), r,
              "trace_res(w1=W, w2=W, l_mm=L, t) = plane_res(w=W, l=L, t)", names=("trace_res", "plane_res"),
              case=other if ok else None)
    r20 = im.call(fn, **{**ex, "temp": 20.0})
    if isinstance(r20, tuple):
        check("affine_temp", r20, r, "R(temp=20)")
    else:
        check("affine_temp", r, F(r20) * (1 + F(ex["tcr"]) * (F(ex["temp"]) - 20)), "R(temp) = R(20)*(1 + tcr*(temp-20))", R20=r20)
    return r_given


# ------------------------------------------------------------------------------------------------ streams
def nontrivial(c):
    a = full_args(c)
    geo = (a["w1_mm"] != a["w2_mm"]) if c["fn"] == "trace_res" else (a["l"] != a["w"])
    return geo and a["tcr"] * (a["temp"] - 20) != 0


def histogram(ctx, c, r):
    a = c["args"]
    ctx.stats["fn:" + c["fn"]] += 1
    ctx.stats["omitted:" + ("/".join(p for p in SIG[c["fn"]][1] if p not in a) or "none")] += 1
    t = a.get("temp", 20.0)
    ctx.stats["temp:" + ("=20" if t == 20 else ("<20" if t < 20 else ">20"))] += 1
    if any(isinstance(v, int) for v in a.values()):
        ctx.stats["int_args"] += 1
    for k_, d_ in (c.get("np") or {}).items():
        ctx.stats["numpy_scalar:%s:%s" % ("temp" if k_ == "temp" else "dimension", d_)] += 1
    if isinstance(r, float) and r > 0 and math.isfinite(r):
        ctx.stats["R:1e%+03d" % (3 * math.floor(math.log10(r) / 3))] += 1


def stream(ctx, cases, use_lean):
    im = Impl()
    results = []
    for c in cases:
        r = oracle(ctx, im, c)
        results.append(r)
        ok = isinstance(r, float) and math.isfinite(r)
        ctx.case(key=c, nontrivial=ok and nontrivial(c), sample={"call": c["fn"], "args": c["args"], "python": r if ok else str(r)})
        histogram(ctx, c, r)
    if not use_lean:
        return
    fresh, why = lean_fresh()
    if not fresh:
        ctx.notes.append(why)
        return
    qs = lean_eval(cases)
    worst = 0.0
    for c, r, q in zip(cases, results, qs):
        ctx.traces += 1
        if isinstance(q, tuple):
            ctx.corr(c, "generated-definition evaluates", {"evaluator": q[1]})
        elif isinstance(r, tuple):
            ctx.corr(c, "python-call returns", {"python": r[1], "lean": "%s" % float(q)})
        else:
            off = rel_off(r, q)
            worst = max(worst, off)
            if off > CORR_RTOL:
                ctx.corr(c, "value: %s = Gen.%s at Rat" % (c["fn"], "traceRes" if c["fn"] == "trace_res" else "planeRes"),
                         {"python": r, "lean": float(q), "lean_exact": "%d/%d" % (q.numerator, q.denominator) if q.denominator < 10 ** 40 else "(long)",
                          "relative_error": off})
    ctx.notes.append("largest relative error Python vs generated definition at Rat over %d tuples: %.3g (bound %.0e)"
                     % (len(cases), worst, CORR_RTOL))


def sweep_case(ctx, im, c):
    """a temperature SWEEP: `temp` as a float64 numpy array (the formula is elementwise, so the functions evaluate it as they stand).
    Every element must be what the scalar call gives - on the first call and on every later call with the same array - and the
    caller's array must come back as it was.  An implementation that takes scalars only (raises on an array) is not faulted."""
    import numpy
    fn, given = c["fn"], dict(c["args"])
    temps = [float(x) for x in c["temps"]]
    arr = numpy.array(temps, dtype=float)
    im.forms = None
    scal = [im.call(fn, **{**given, "temp": t}) for t in temps]
    if any(isinstance(s, tuple) for s in scal):
        return
    ctx.case(key=["sweep", c], nontrivial=True, sample={"call": fn, "args": given, "temps": temps, "stream": "sweep"})
    ctx.stats["stream:sweep"] += 1
    for rnd in (1, 2, 3):
        try:
            r = getattr(im.mod, fn)(**{**given, "temp": arr})
            r = [float(x) for x in numpy.asarray(r, dtype=float).ravel()]
        except Exception as e:       # noqa
            ctx.stats["sweep:unsupported:%s" % type(e).__name__] += 1
            return
        if len(r) != len(temps) or any(rel_off(x, s) > ORACLE_RTOL for x, s in zip(r, scal)):
            ctx.oracle(dict(c, sweep=True), "formula", fn, {"sweep": True},
                       {"what": "%s(temp=<float64 array>) call no. %d vs the scalar calls at the same temperatures" % (fn, rnd),
                        "temps": temps, "array_call": r, "scalar_calls": scal, "array_after_call": [float(x) for x in arr]})
            return
        if [float(x) for x in arr] != temps:
            ctx.oracle(dict(c, sweep=True), "formula", fn, {"sweep": True, "argument_modified": True},
                       {"what": "the caller's temperature array is modified by the call", "before": temps, "after": [float(x) for x in arr]})
            return


def sweeps(ctx, n):
    im = Impl()
    for _ in range(n):
        c = gen_case(ctx.rng)
        c.pop("np", None)
        c["args"].pop("temp", None)
        c["temps"] = [float("%.4g" % ctx.rng.uniform(-40.0, 150.0)) for _ in range(ctx.rng.randint(2, 5))]
        sweep_case(ctx, im, c)


def run(ctx):
    sweeps(ctx, ctx.n(25, 400))
    cases = corner_cases() + [gen_case(ctx.rng) for _ in range(ctx.n(500, 50000))]
    stream(ctx, cases, use_lean=True)


def search(ctx):
    """proof / translation / correspondence broke and the oracle saw nothing on the main stream (or the main stream was skipped
    because the build failed): simple tuples first, then a wider stream (dimensions over 1e-6..1e6), oracle only"""
    sweeps(ctx, ctx.n(25, 400))
    cases = corner_cases() + [gen_case(ctx.rng, span=6.0) for _ in range(ctx.n(4000, 60000))]
    stream(ctx, cases, use_lean=False)


def replay(ctx, data):
    c = data["case"]
    if c.get("sweep"):
        return sweep_case(ctx, Impl(), {"fn": c["fn"], "args": dict(c["args"]), "k": c.get("k", 2.5), "temps": c["temps"]})
    c = {"fn": c["fn"], "args": dict(c["args"]), "k": c.get("k", 2.5), **({"np": c["np"]} if c.get("np") else {})}
    try:
        stream(ctx, [c], use_lean=True)
    except RuntimeError as e:        # a replay of an oracle failure does not need the evaluator
        ctx.notes.append("replay: %s" % e)
