"""C12 — save() / System.from_file() round-trips the whole system; newer-version files are refused."""
import copy, json, os, shutil, tempfile

import sysloss

from .. import gen, sysdesc, wire
from ..sysdesc import System
from .c13 import same, exc_name
from .c13 import first_diff as _first_diff


def first_diff(a, b, path=""):
    """document comparison: the name-keyed registries of the system block (phase_conf, groups, rails) are compared as
    unordered maps — their key order records creation order only and nothing reads it; everything else is ordered"""
    def canon(d):
        if isinstance(d, dict) and isinstance(d.get("system"), dict):
            d = dict(d)
            sysb = dict(d["system"])
            for k in ("phase_conf", "groups", "rails"):
                if isinstance(sysb.get(k), dict):
                    sysb[k] = {kk: sysb[k][kk] for kk in sorted(sysb[k])}
            d["system"] = sysb
        return d
    return _first_diff(canon(a), canon(b), path)


CLAIM = True
LEVEL_TEXT = ("Theorems (Lean 4, any linearly ordered field) about the executable model of System.save / System.from_file "
              "(Model/Persist.lean: document layout, the loader's keyword mappings and defaults, its add_comp checks, the final "
              "overwrite of the registries, the version gate) and the constructor model: every component a constructor can build, "
              "dumped and run through the loader's branch for its type, comes back with the same kind, name, normalised parameters, "
              "interpolation data, rectifier mode, stored _params and applicable limits (`reload_comp`, `reload_source`, `reload_pmux`: "
              "all 11 kinds, diode Rectifier included since F14 was repaired); a description whose layout lists every component once "
              "with its parent loaded first reloads to the same components under the same ordered parents with the same name, phases, "
              "phase configurations, groups and rails (`roundtrip_partial`), and Props/C12Layout proves that layout condition for EVERY well-formed "
              "description (distinct names, a valid topological order, existing parents, roots = Sources, one PMux, loads childless): the breadth-first "
              "walk of save() lists each component outside the PMux subtree exactly once below its one Source with its parent first, the PMux block comes "
              "after all its inputs with exactly its descendants, the fuel of the walk suffices (`saveable_of_wf`, `layout_of_wf`), hence "
              "`roundtrip_wf_partial`: from_file(save(S)) is S, partial ONLY through the reserved name `system` (F15); Props/C12Solve carries it through to the results: for a well-formed description the reloaded system's solve() "
              "succeeds iff the original's does and returns the same rows up to order with equal total / average rows, and the same rail report up to row order "
              "(`reload_same_table_partial`, `reload_same_rail_rep_partial`; components that differ only in non-applicable limits are shown law-equal: `compEquiv_laws`; "
              "the extra hypothesis that a 2-D table's value does not depend on the triangulation diagonal is a model artefact - in scipy the diagonal is a function of the data); the version gate refuses exactly the newer N.N.N versions. "
              "The full statement `C12_full` is refuted on a concrete witness (`full_fails_reserved_name`: a Source named \"system\", "
              "finding F15). Model tied to the code on every run: the saved JSON of hundreds of random systems must equal the model's "
              "document, and the reloaded system's second save and params(limits=True) must equal the model's from_file.")
LEVEL_NOTE = ("Partial: F15 (top-level name \"system\") is excluded by hypothesis and reported as KNOWN-FINDING, as is "
              "F29-C12-LIMITS (non-applicable limits are not saved; the theorem speaks of applicable limits, `nonapplicable_limits_dropped` "
              "states the loss). The layout hypothesis `LayoutOK` of `roundtrip_partial` depends on rustworkx's BFS (a parameter of the "
              "model); its executable form is proved sound (`layout_conditions_sound`) and evaluated by the driver on every generated system.")
LEVEL_NOTE = LEVEL_NOTE + (' Open-ended limits (a bound of +-inf) are outside the exact-rational model: that stream compares the implementation with itself only (reports of from_file(save(S)) vs S).')
MODULE = "SysLoss.Props.C12"
THEOREMS = [
    "SysLoss.C12.reload_comp",
    "SysLoss.C12.reload_source",
    "SysLoss.C12.reload_pmux",
    "SysLoss.C12.roundtrip_partial",
    "SysLoss.C12.layout_conditions_sound",
    "SysLoss.C12.reserved_name_fails",
    "SysLoss.C12.full_fails_reserved_name",
    "SysLoss.C12.nonapplicable_limits_dropped",
    "SysLoss.C12.version_gate_newer",
    "SysLoss.C12.version_gate_not_newer",
    "SysLoss.C12.save_version_accepted",
    "SysLoss.C12.verLt_strict_total",
    # Props/C12Layout: the layout hypothesis of the round trip proved for every well-formed description (BFS of save())
    "SysLoss.C12.saveable_of_wf", "SysLoss.C12.layout_of_wf", "SysLoss.C12.saveable_of_wf_nomux", "SysLoss.C12.roundtrip_wf_partial",
    "SysLoss.C12.wf_full_fails_reserved_name", "SysLoss.C12.bfsAux_inv", "SysLoss.C12.bfsAux_complete", "SysLoss.C12.bfs_entry",
    "SysLoss.C12.bfs_closed", "SysLoss.C12.entriesOK_bfsAux", "SysLoss.C12.reach_unique", "SysLoss.C12.srcBlocks_complete",
    "SysLoss.C12.muxBlock_ok", "SysLoss.C12.eSys_wf", "SysLoss.C12.wSys_wf",
    # Props/C12Solve: the reloaded system solves to the same table / rail report (bridge SysEquiv -> C16R.Iso up to law-equal components)
    "SysLoss.C12.compEquiv_laws", "SysLoss.C12.SameLaws.solve_eq", "SysLoss.C12.SameLaws.tableWF", "SysLoss.C12.IsoUpTo.solve",
    "SysLoss.C12.IsoUpTo.solve_error", "SysLoss.C12.IsoUpTo.rail_rep", "SysLoss.C12.perm_iso", "SysLoss.C12.sameLaws_of_nodeAgree",
    "SysLoss.C12.toSSys_tableWF", "SysLoss.C12.toSSys_railsUnique", "SysLoss.C12.sysEquiv_isoUpTo_partial", "SysLoss.C12.sysEquiv_iso_partial",
    "SysLoss.C12.sysEquiv_same_table_partial", "SysLoss.C12.sysEquiv_same_error_partial", "SysLoss.C12.sysEquiv_same_rail_rep_partial",
    "SysLoss.C12.roundtrip_explicit", "SysLoss.C12.reload_same_table_partial", "SysLoss.C12.reload_same_rail_rep_partial",
    # Props/C12Same: the documents of two systems with the same final structure carry the same information
    "SysLoss.CompEquiv.refl", "SysLoss.CompEquiv.symm", "SysLoss.CompEquiv.trans", "SysLoss.C12.SysEquiv.refl", "SysLoss.C12.SysEquiv.symm",
    "SysLoss.C12.SysEquiv.trans", "SysLoss.C12.sysEquiv_equivalence", "SysLoss.C12.DescWF.retopo", "SysLoss.C12.DescWF.of_sysEquiv",
    "SysLoss.C12.roundtrip_general", "SysLoss.C12.save_same_structure", "SysLoss.C12.save_same_structure_partial",
    "SysLoss.C12.reloads_same_table_partial", "SysLoss.C12.reloads_same_rail_rep_partial", "SysLoss.C12.save_same_structure_same_table_partial",
    "SysLoss.C12.save_same_structure_same_rail_rep_partial", "SysLoss.C12.save_topo_irrelevant", "SysLoss.C12.save_topo_irrelevant_partial",
    "SysLoss.C12.toSSys_congr_regs", "SysLoss.C12.sysEquivR_same_table_partial", "SysLoss.C12.sysEquivR_same_rail_rep_partial",
    "SysLoss.C12.save_same_structure_reg_partial",
]
MODULES = ["SysLoss.Props.C12", "SysLoss.Props.C12Layout", "SysLoss.Props.C12Solve", "SysLoss.Props.C12Same"]
RULE = ("random power trees from gen.gen_system (1-3 sources, <=24 nodes, all 11 kinds, tabulated eff/vdrop/ig 1-D and 2-D, PMux rs lists, "
        "deprecated LinReg iq, loss flags, rt, limits on applicable keys, groups, rails, system phases, component phase configurations), "
        "saved to and reloaded from real files in a temporary directory; plus streams: version strings below/equal/above, documents with "
        "optional keys removed (loader defaults), diode rectifiers, reserved top-level names, non-applicable limits. Non-trivial = built, saved "
        "and >= 3 components; distinct by canonical description")
ASSUMPTIONS = ["JSON text <-> value (json.dump / json.load, float repr round trip) is trusted; the harness goes through real files",
               "rustworkx topological order is taken from the implementation (row order of params()); successor/BFS order is modelled "
               "(newest edge first) and checked against every saved file",
               "reports of the original and the reloaded system are compared with 1e-9 relative tolerance, rows keyed by name"]
EXPLANATION = ("theorems: SysLoss.Props.C12 over Model/Persist.lean; correspondence: saved JSON vs model `save` (structural, numbers exact), "
               "from_file outcome class, second save() and params(limits=True) of the reloaded system vs model `fromFile`; oracle: "
               "params(limits=True) / phases() / solve() / rail_rep() / mux parent order of from_file(save(S)) vs S on the implementation "
               "alone, ValueError exactly for newer versions")

LIBVER = sysloss.__version__
APPL = {"source": ["io", "po", "pl"], "pload": ["vi", "ii", "tr", "tp"], "iload": ["vi", "pi", "tr", "tp"],
        "rload": ["vi", "ii", "pi", "tr", "tp"], "converter": ["vi", "vo", "ii", "io", "pi", "po", "pl", "tr", "tp"]}
ALL_LIMS = ["vi", "vo", "vd", "ii", "io", "pi", "po", "pl", "tr", "tp"]
LIMCOL = {"vi": "vi limit (V)", "vo": "vo limit (V)", "vd": "vd limit (V)", "ii": "ii limit (A)", "io": "io limit (A)",
          "pi": "pi limit (W)", "po": "po limit (W)", "pl": "pl limit (W)", "tr": "tr limit (°C)", "tp": "tp limit (°C)"}
PARCOL = {"vo": "vo (V)", "vdrop": "vdrop (V)", "rs": "rs (Ohm)", "rt": "rt (°C/W)", "eff": "eff (%)", "ig": "ig (A)",
          "iq": "iq (A)", "ii": "ii (A)", "iis": "iis (A)", "pwr": "pwr (W)", "pwrs": "pwrs (W)", "loss": "loss"}
LIMDEF = {k: ([-1.0e6, 1.0e6] if k == "tp" else [0.0, 1.0e6]) for k in ALL_LIMS}


# ---------------------------------------------------------------------------------------------------
# descriptions

def is_diode(c):
    if c["kind"] != "rectifier":
        return False
    v = c["args"].get("vdrop", 0.0)
    return isinstance(v, dict) or v != 0.0


def tame(rng, desc, p_diode=0.0, p_nonappl=0.0, p_iq=0.25, p_int=0.1):
    """post-process a generated description: keep the trigger patterns of the open findings rare in the main
    stream, and add the parameter forms gen_system does not produce (deprecated LinReg iq, int values)"""
    keep_diode = rng.random() < p_diode
    keep_nonappl = rng.random() < p_nonappl
    br = (desc.get("_build") or {}).get("bridge")
    if br and any(c["name"] == br["child"] and len(c["parents"]) > 1 for c in desc["comps"]):
        # a bridged child with several parents gets ONE of its links re-created at the end, the others keep their place: the sibling
        # order of the document is then not the order of any component list (which is all the document model of C12 is given -
        # edit histories are C16's subject), so such a case is compared with ITSELF only (from_file(save(S)) vs S, mux input order included), not with the document model
        desc["_no_layout_model"] = True
    for c in desc["comps"]:
        a = c["args"]
        if "limits" in a and not keep_nonappl:
            ok = APPL.get(c["kind"], ALL_LIMS)
            a["limits"] = {k: v for k, v in a["limits"].items() if k in ok}
        if is_diode(c) and not keep_diode:
            a.pop("vdrop")
            a["rs"] = gen.sd(rng, 1e-3, 0.05)
            if rng.random() < 0.4:
                a["ig"] = gen.sd(rng, 1e-6, 1e-4)
        if c["kind"] == "linreg" and "ig" in a and rng.random() < p_iq:
            ig = a.pop("ig")
            if isinstance(ig, dict):
                ig = {("iq" if k == "ig" else k): v for k, v in ig.items()}
            a["iq"] = ig
        if c["kind"] in ("source", "converter") and rng.random() < p_int:
            a["vo"] = int(round(a["vo"])) or 1
        if "limits" in a and rng.random() < 0.15:
            for k in a["limits"]:
                if rng.random() < 0.5:
                    a["limits"][k] = list(LIMDEF[k])          # a limit that equals the default
    return desc


def main_desc(rng):
    d = gen.gen_system(rng, p_limits=0.3, p_group=0.3, p_rail=0.3, phases=0.4, p_rt=0.3, p_table=0.3, p_moved=0.0, p_zero_load=0.12)
    return tame(rng, d, p_diode=1.0, p_nonappl=0.03)


def rename(desc, old, new):
    d = copy.deepcopy(desc)
    for c in d["comps"]:
        if c["name"] == old:
            c["name"] = new
        c["parents"] = [new if p == old else p for p in c["parents"]]
    return d


def resolved(desc):
    owner = {c["rail"]: c["name"] for c in desc["comps"] if c.get("rail")}
    names = {c["name"] for c in desc["comps"]}
    return {c["name"]: [p if p in names else owner[p] for p in c["parents"]] for c in desc["comps"]}


def insertion_order(desc):
    """the order in which sysdesc.build creates the parent->child links, which is what decides the sibling order of the
    document (a `detour` build plan adds one leaf last; a `bridge` plan re-links one child to its parent at the very end)"""
    plan = desc.get("_build") or {}
    det, br = plan.get("detour"), plan.get("bridge")
    late = []
    if det:
        late.append(det["x"])
    if br and br["child"] not in late:
        late.append(br["child"])
    elif br:
        late = [n for n in late if n != br["child"]] + [br["child"]]
    return [c for c in desc["comps"] if c["name"] not in late] + [c for n in late for c in desc["comps"] if c["name"] == n]


def desc_wire(desc):
    par = resolved(desc)
    return {"name": desc.get("name", "sys"),
            "comps": [{"kind": c["kind"], "name": c["name"], "args": wire.pv(c["args"]), "parents": par[c["name"]],
                       "group": c.get("group", ""), "rail": c.get("rail", ""),
                       "pconf": (None if c.get("pconf") is None else wire.pv(c["pconf"]))} for c in insertion_order(desc)],
            "phases": wire.pv(desc.get("phases") or {})}


def facts(desc):
    ns = sum(1 for c in desc["comps"] if c["kind"] == "source")
    return {"multi_source": ns > 1,
            "reserved_name": any(c["name"] == "system" and c["kind"] in ("source", "pmux") for c in desc["comps"])}


# ---------------------------------------------------------------------------------------------------
# reports

def df_rows(df, keycols):
    """DataFrame -> {key tuple: {col: python value}} (duplicate keys get a running index)"""
    if df is None:
        return None
    out, seen = {}, {}
    for _, r in df.iterrows():
        k = tuple(str(r[c]) for c in keycols if c in df.columns)
        seen[k] = seen.get(k, 0) + 1
        if seen[k] > 1:
            k = k + (seen[k],)
        out[k] = {c: (r[c].item() if hasattr(r[c], "item") else r[c]) for c in df.columns}
    return out


VCOLS = ("Vin (V)", "Vout (V)", "Voltage (V)")
ICOLS = ("Iin (A)", "Iout (A)", "Current (A)")
PCOLS = ("Power (W)", "Loss (W)", "24h energy (Wh)")
TCOLS = ("Temp. rise (°C)", "Peak temp. (°C)")


def _num(x):
    return isinstance(x, (int, float)) and not isinstance(x, bool)


def row_scales(ra, rb):
    """per column group: the largest magnitude in the row (both tables).  Loss and efficiency are differences of
    nearly equal powers, so their rounding noise scales with the power, not with their own size."""
    def mx(cols):
        return max([abs(r[c]) for r in (ra, rb) for c in cols if c in r and _num(r[c]) and r[c] == r[c]] or [0.0])
    return {"v": mx(VCOLS), "i": mx(ICOLS), "p": mx(PCOLS), "t": max(mx(TCOLS), 1.0)}


def cell_same(col, a, b, sc=None):
    if col == "Warnings" and isinstance(a, str) and isinstance(b, str):
        return sorted(x.strip() for x in a.split(",")) == sorted(x.strip() for x in b.split(","))
    if _num(a) and _num(b):
        if (a != a and b != b) or a == b:          # NaN twice; equal (also +-inf: an open-ended limit)
            return True
        if col == "Efficiency (%)":
            return abs(a - b) <= 1e-7
        scale = 0.0
        if sc is not None:
            scale = sc["v"] if col in VCOLS else sc["i"] if col in ICOLS else sc["p"] if col in PCOLS else \
                sc["t"] if col in TCOLS else 0.0
        return abs(a - b) <= 1e-9 * max(abs(a), abs(b), scale) + 1e-12
    return same(a, b)


def diff_rows(A, B, scaled=False):
    """-> list of (key, col, a, b)"""
    out = []
    if (A is None) != (B is None):
        return [(("*",), "present", A is not None, B is not None)]
    if A is None:
        return out
    for k in A:
        if k not in B:
            out.append((k, "row", "present", "absent"))
    for k in B:
        if k not in A:
            out.append((k, "row", "absent", "present"))
    for k in A:
        if k in B:
            sc = row_scales(A[k], B[k]) if scaled else None
            for c in A[k]:
                if c not in B[k]:
                    out.append((k, c, A[k][c], "<no column>"))
                elif not cell_same(c, A[k][c], B[k][c], sc):
                    out.append((k, c, A[k][c], B[k][c]))
            for c in B[k]:
                if c not in A[k]:
                    out.append((k, c, "<no column>", B[k][c]))
    return out


SOLVE_KW = {"vtol": 1e-10, "itol": 1e-10}


def report(s, which):
    if which == "params":
        df, e = sysdesc.quiet_call(s.params, limits=True)
        key = ("Component",)
    elif which == "phases":
        df, e = sysdesc.quiet_call(s.phases)
        key = ("Component", "Active phase")
    elif which == "solve":
        df, e = sysdesc.quiet_call(s.solve, **SOLVE_KW)
        key = ("Component", "Phase")
    else:
        df, e = sysdesc.quiet_call(s.rail_rep, **SOLVE_KW)
        key = ("Rail", "Phase") if (df is not None and "Rail" in df.columns) else ("Component", "Phase")
    if e is not None:
        return ("exc", sysdesc.exc_class(e))
    return ("ok", df_rows(df, key))


def doc_edges(doc):
    """(child, parent) pairs and the mux parent list of a saved document"""
    edges, muxpar = set(), None
    for k, blk in doc.items():
        if k == "system" or not isinstance(blk, dict) or "childs" not in blk:
            continue
        for p, lst in blk["childs"].items():
            for c in lst:
                edges.add((c["params"]["name"], p))
        if "parents" in blk:
            muxpar = list(blk["parents"])
    return edges, muxpar


def model_params_rows(nodes):
    """params(limits=True) rows from the model's reloaded components"""
    out = {}
    for n in nodes:
        p = wire.unpv(n["params"])
        row = {"Component": n["name"], "Type": n["type"]}
        for k, col in PARCOL.items():
            row[col] = ("interp" if isinstance(p[k], dict) else p[k]) if k in p else ""
        lim = {k: [float(wire.unnum(lo)), float(wire.unnum(hi))] for k, lo, hi in n["limits"]}
        for k, col in LIMCOL.items():
            row[col] = "" if (k not in lim or lim[k] == LIMDEF[k]) else lim[k]
        out[(n["name"],)] = row
    return out


# ---------------------------------------------------------------------------------------------------
# one case

def run_case(ctx, tmp, desc, tag, versions=False, dropkeys=False, model=True):
    case = desc
    if desc.get("_no_layout_model"):
        model = False
    ctx.stats["stream:" + tag] += 1
    s, e = sysdesc.quiet_call(sysdesc.build, desc)
    if e is not None:
        ctx.stats["build-error:" + exc_name(e)] += 1
        ctx.case(nontrivial=False)
        return "skip"
    f1, f2 = os.path.join(tmp, "a.json"), os.path.join(tmp, "b.json")
    _, e = sysdesc.quiet_call(s.save, f1)
    if e is not None:
        ctx.stats["save-error:" + exc_name(e)] += 1
        ctx.case(nontrivial=False)
        return "skip"
    doc1 = json.load(open(f1))
    topo = [str(x) for x in s.params()["Component"]]
    fx = facts(desc)
    kinds = {c["name"]: c for c in desc["comps"]}
    for c in desc["comps"]:
        ctx.stats["kind:" + c["kind"]] += 1
        for k, v in c["args"].items():
            if k == "limits":
                ctx.stats["with_limits"] += 1
            elif isinstance(v, dict):
                ctx.stats["table:%s:%dD" % (k, 1 if len(v["vi"]) == 1 else 2)] += 1
            elif isinstance(v, list):
                ctx.stats["rs_list"] += 1
        if c.get("pconf") is not None:
            ctx.stats["with_pconf"] += 1
    ctx.stats["sources:%d" % sum(1 for c in desc["comps"] if c["kind"] == "source")] += 1
    ctx.stats["has_mux"] += any(c["kind"] == "pmux" for c in desc["comps"])
    ctx.stats["has_phases"] += bool(desc.get("phases"))
    ctx.stats["has_rails"] += any(c.get("rail") for c in desc["comps"])
    ctx.stats["has_groups"] += any(c.get("group") for c in desc["comps"])
    ctx.case(key=[(c["kind"], c["name"], c["parents"], repr(sorted(c["args"].items())), repr(c.get("pconf")),
                   c.get("group"), c.get("rail")) for c in desc["comps"]] + [repr(desc.get("phases"))],
             nontrivial=len(desc["comps"]) >= 3,
             sample={"components": [(c["kind"], c["name"], c["parents"]) for c in desc["comps"]], "document_keys": list(doc1)})

    s2, e2 = sysdesc.quiet_call(System.from_file, f1)
    impl_load = exc_name(e2)
    doc2, topo2 = None, None
    if s2 is not None:
        topo2 = [str(x) for x in s2.params()["Component"]]
        _, e = sysdesc.quiet_call(s2.save, f2)
        doc2 = json.load(open(f2)) if e is None else {"save-error": exc_name(e)}

    if not model:
        # values the exact-rational model cannot carry (open-ended limits: +-inf): the implementation against itself only
        if impl_load != "ok":
            ctx.oracle(case, "loads", "system", dict(fx), {"from_file(save(S))": impl_load, "message": str(e2)[:200]})
        else:
            oracle_reports(ctx, case, desc, s, s2, doc1, doc2, fx, kinds)
        return "ok"
    # --- correspondence: the model's save / fromFile
    req = {"cmd": "doc", "op": "roundtrip", "carrier": "rat", "ver": LIBVER, "topo": topo, "sys": desc_wire(desc)}
    if topo2 is not None:
        req["topo2"] = topo2
    m = ctx.drv.ask(req)
    ctx.traces += 1
    if "bad-op" in m:
        raise RuntimeError("driver: %r" % m)
    if "bad-desc" in m:
        ctx.corr(case, "constructor: the model rejects a component the implementation accepted", m)
        return "corr"
    d = first_diff(doc1, wire.unpv(m["doc"]))
    if d:
        ctx.corr(case, "save: document layout / contents", {"first_difference(impl vs model)": d})
    ctx.stats["theorem_hypothesis_saveable:%s" % m.get("saveable")] += 1
    if m.get("saveable") is not True:
        ctx.corr(case, "hypothesis of roundtrip_partial (layout lists every component once, parents first) on a system built "
                       "through the public API", {"saveable": m.get("saveable")})
    mload = "ok" if "ok" in m["load"] else m["load"]["err"]["cls"]
    if mload != impl_load:
        ctx.corr(case, "from_file: outcome class", {"impl": impl_load, "model": mload, "detail": m["load"].get("err")})
    elif impl_load == "ok":
        if "doc2" in m:
            d = first_diff(doc2, wire.unpv(m["doc2"]))
            if d:
                ctx.corr(case, "from_file: second save() of the reloaded system", {"first_difference(impl vs model)": d})
        st, rows = report(s2, "params")
        if st == "ok":
            dd = diff_rows(rows, model_params_rows(m["load"]["ok"]["nodes"]))
            if dd:
                ctx.corr(case, "from_file: params(limits=True) of the reloaded system", {"diff": [list(map(str, x)) for x in dd[:4]]})

    # --- oracle: the implementation against itself
    if impl_load != "ok":
        ctx.oracle(case, "loads", "system", dict(fx), {"from_file(save(S))": impl_load, "message": str(e2)[:200]})
    else:
        oracle_reports(ctx, case, desc, s, s2, doc1, doc2, fx, kinds)

    if versions and impl_load == "ok":
        version_cases(ctx, tmp, case, doc1)
    if dropkeys and impl_load == "ok":
        dropkey_cases(ctx, tmp, case, doc1)
    return "ok"


def oracle_reports(ctx, case, desc, s, s2, doc1, doc2, fx, kinds):
    e1, mp1 = doc_edges(doc1)
    if isinstance(doc2, dict) and "save-error" not in doc2:
        e2, mp2 = doc_edges(doc2)
        if e1 != e2:
            ctx.oracle(case, "structure_equal", "system", dict(fx), {"only_original": sorted(e1 - e2)[:5], "only_reloaded": sorted(e2 - e1)[:5]})
        if mp1 != mp2:
            ctx.oracle(case, "mux_order", "pmux", dict(fx), {"original": mp1, "reloaded": mp2})
        for reg in ("phases", "phase_conf", "groups", "rails"):
            if not same(doc1["system"].get(reg), doc2["system"].get(reg)):
                ctx.oracle(case, "registries_equal", "system", dict(fx), {"registry": reg, "original": doc1["system"].get(reg),
                                                                          "reloaded": doc2["system"].get(reg)})
    # params(limits=True): root causes
    (sa, A), (sb, B) = report(s, "params"), report(s2, "params")
    root = None
    if sa != sb or (sa == "exc" and A != B):
        ctx.oracle(case, "reports_equal", "system", dict(fx), {"report": "params", "original": A if sa == "exc" else sa,
                                                                "reloaded": B if sb == "exc" else sb})
    elif sa == "ok":
        dd = diff_rows(A, B)
        nonappl, real = [], []
        for k, col, a, b in dd:
            c = kinds.get(k[0])
            lk = [x for x, y in LIMCOL.items() if y == col]
            if c is not None and lk and lk[0] not in APPL.get(c["kind"], ALL_LIMS):
                nonappl.append((k, col, a, b))
            else:
                real.append((k, col, a, b))
        if nonappl:
            k, col, a, b = nonappl[0]
            ctx.oracle(case, "limits_equal", kinds[k[0]]["kind"], {"nonapplicable_limit": True},
                       {"report": "params(limits=True)", "row": k[0], "column": col, "original": a, "reloaded": b})
        if real:
            k, col, a, b = real[0]
            c = kinds.get(k[0])
            root = c
            ctx.oracle(case, "reports_equal", c["kind"] if c else "system", {"diode": bool(c and is_diode(c))},
                       {"report": "params(limits=True)", "row": k[0], "column": col, "original": a, "reloaded": b,
                        "all": [[k2[0], c2] for k2, c2, _, _ in real[:8]]})
    # phases(), solve(), rail_rep()
    for which in ("phases", "solve", "rail_rep"):
        (sa, A), (sb, B) = report(s, which), report(s2, which)
        if sa != sb or (sa == "exc" and A != B):
            kind, trig = (root["kind"], {"diode": is_diode(root)}) if root else ("system", {"diode": False})
            ctx.oracle(case, "reports_equal", kind, trig, {"report": which, "original": A if sa == "exc" else sa,
                                                            "reloaded": B if sb == "exc" else sb})
            continue
        if sa != "ok":
            continue
        real = diff_rows(A, B, scaled=True)
        if real:
            k, col, a, b = real[0]
            if root:
                kind, trig = root["kind"], {"diode": is_diode(root)}
            else:
                c = kinds.get(k[0])
                kind, trig = (c["kind"] if c else "system"), {"diode": False}
            ctx.oracle(case, "reports_equal", kind, trig, {"report": which, "row": list(k), "column": col, "original": a,
                                                            "reloaded": b, "differing_cells": len(real)})


def near_versions(rng):
    a, b, c = (int(x) for x in LIBVER.split(".")[:3])
    below = ["%d.%d.%d" % t for t in [(a, b, c - 1), (a, b - 1, c + 50), (a - 1, b + 50, c + 50), (0, 0, 1), (a, b - 1, 9)]
             if min(t) >= 0]
    above = ["%d.%d.%d" % t for t in [(a, b, c + 1), (a, b + 1, 0), (a + 1, 0, 0), (a, b + 10, 0), (a + 6, 7, 7)]]
    return [(v, "below") for v in below] + [(LIBVER, "equal")] + [(v, "above") for v in above]


def version_cases(ctx, tmp, case, doc1):
    f = os.path.join(tmp, "v.json")
    for ver, rel in near_versions(ctx.rng):
        doc = copy.deepcopy(doc1)
        doc["system"]["version"] = ver
        json.dump(doc, open(f, "w"))
        _, e = sysdesc.quiet_call(System.from_file, f)
        impl = exc_name(e)
        ctx.stats["version:" + rel] += 1
        ctx.case(key=["version", ver, list(doc1)], nontrivial=True)
        m = ctx.drv.ask({"cmd": "doc", "op": "load", "carrier": "rat", "lib": LIBVER, "doc": wire.pv(doc)})
        ctx.traces += 1
        mload = "ok" if "ok" in m["load"] else m["load"]["err"]["cls"]
        if mload != impl:
            ctx.corr({"doc": doc}, "from_file: version gate outcome", {"version": ver, "impl": impl, "model": mload})
        want = "ValueError" if rel == "above" else "ok"
        if impl != want:        # the unmodified document loads (checked by the caller)
            ctx.oracle({"doc": doc}, "version_gate", "system", {}, {"library": LIBVER, "file": ver, "expected": want, "from_file": impl})


DROPPABLE = ("rs", "iq", "ig", "iis", "rt", "loss", "pwrs", "vdrop", "limits", "phases", "groups", "rails")


def dropkey_cases(ctx, tmp, case, doc1):
    """documents with optional keys removed / values swapped: exercises the loader's defaults (model vs code only)"""
    rng = ctx.rng
    f, f2 = os.path.join(tmp, "d.json"), os.path.join(tmp, "d2.json")
    for _ in range(3):
        doc = copy.deepcopy(doc1)
        blocks = []
        for k, blk in doc.items():
            if k == "system":
                continue
            blocks.append(blk)
            for lst in blk.get("childs", {}).values():
                blocks.extend(lst)
        mode = rng.random()
        for blk in blocks:
            for key in list(blk["params"]):
                if key in DROPPABLE and rng.random() < 0.35:
                    del blk["params"][key]
            if "limits" in blk and rng.random() < 0.3:
                del blk["limits"]
        if mode < 0.3:
            for reg in ("phases", "groups", "rails"):
                if rng.random() < 0.5:
                    doc["system"].pop(reg, None)
        elif mode < 0.4:
            doc["system"]["groups"] = {}
        elif mode < 0.5 and blocks:
            b = rng.choice(blocks)
            b["params"].pop(rng.choice(list(b["params"])), None)      # possibly a mandatory key
        elif mode < 0.55 and blocks:
            rng.choice(blocks)["type"] = rng.choice(["SOURCE", "PMUX", "NOSUCH"])
        json.dump(doc, open(f, "w"))
        s3, e = sysdesc.quiet_call(System.from_file, f)
        impl = exc_name(e)
        ctx.stats["dropkey:" + impl] += 1
        ctx.case(key=["drop", json.dumps(doc)], nontrivial=True)
        req = {"cmd": "doc", "op": "load", "carrier": "rat", "lib": LIBVER, "doc": wire.pv(doc)}
        d3 = None
        if s3 is not None:
            pr, e = sysdesc.quiet_call(s3.params)
            _, e2 = sysdesc.quiet_call(s3.save, f2)
            if e is None and e2 is None:
                req["topo2"] = [str(x) for x in pr["Component"]]
                d3 = json.load(open(f2))
        m = ctx.drv.ask(req)
        ctx.traces += 1
        mload = "ok" if "ok" in m["load"] else m["load"]["err"]["cls"]
        if mload.startswith("outside-model"):
            ctx.stats["dropkey:outside-model"] += 1
            continue
        if mload != impl:
            ctx.corr({"doc": doc}, "from_file: outcome class on an edited document", {"impl": impl, "model": mload,
                                                                                     "detail": m["load"].get("err")})
        elif d3 is not None and "doc2" in m:
            d = first_diff(d3, wire.unpv(m["doc2"]))
            if d:
                ctx.corr({"doc": doc}, "from_file: defaults for absent keys (second save of an edited document)",
                         {"first_difference(impl vs model)": d})


# ---------------------------------------------------------------------------------------------------
# streams

def diode_desc(rng):
    d = tame(rng, gen.gen_system(rng, max_nodes=8, p_limits=0.2, p_rail=0.2, phases=0.2, p_moved=0.0), p_diode=1.0)
    cands = [c for c in d["comps"] if c["kind"] not in ("pload", "iload", "rload", "pmux")]
    par = rng.choice(cands)["name"]
    vd = gen.sd(rng, 0.2, 0.9) if rng.random() < 0.7 else gen.mk_table(rng, "vdrop", 0.2, 0.9, 5.0, 0.3)
    d["comps"].append({"name": "DB1", "kind": "rectifier", "args": {"vdrop": vd}, "parents": [par]})
    d["comps"].append({"name": "DL1", "kind": "iload", "args": {"ii": gen.sd(rng, 0.01, 0.3)}, "parents": ["DB1"]})
    return d


def reserved_desc(rng):
    d = tame(rng, gen.gen_system(rng, max_nodes=8, p_rail=0.2, phases=0.2, p_moved=0.0))
    tops = [c["name"] for c in d["comps"] if c["kind"] in ("source", "pmux")]
    return rename(d, rng.choice(tops), "system")


def nonappl_desc(rng):
    d = tame(rng, gen.gen_system(rng, max_nodes=8, p_limits=0.0, p_moved=0.0))
    cands = [c for c in d["comps"] if c["kind"] in APPL]
    c = rng.choice(cands)
    k = rng.choice([x for x in ALL_LIMS if x not in APPL[c["kind"]]])
    c["args"]["limits"] = {k: [0.0, gen.sd(rng, 1, 100)]}
    return d


def open_limits_desc(rng):
    """applicable limits with an open end: [x, inf] / [-inf, x] (a bound that is not there) - they must come back as they were"""
    d = tame(rng, gen.gen_system(rng, max_nodes=8, p_limits=0.6, p_rail=0.2, phases=0.2, p_moved=0.0))
    inf = float("inf")
    n = 0
    for c in d["comps"]:
        ok = sorted(APPL.get(c["kind"], ALL_LIMS))
        if rng.random() < 0.6:
            lim = c["args"].setdefault("limits", {})
            for k in rng.sample(ok, rng.randint(1, min(3, len(ok)))):
                lo, hi = LIMDEF[k]
                x = gen.sd(rng, 1e-3, 1e3)
                lim[k] = rng.choice([[0.0, inf], [-inf, x], [-x, inf], [-inf, inf], [lo, inf]])
                n += 1
    d["_open_limits"] = n
    return d


def presaved_move_desc(rng):
    """build history: the system is saved once (an autosave), then a leaf is moved - deleted and re-added under the same name at its real
    place (node and edge counts unchanged) - and only then saved for the round trip.  The sibling order of such a history is not that of
    any component list, so this stream compares the implementation with itself only."""
    for _ in range(6):
        d = tame(rng, gen.gen_system(rng, max_nodes=10, p_limits=0.2, p_rail=0.3, phases=0.2, p_moved=1.0, p_detour=0.0, p_bridge=0.0,
                                     p_rename=0.0))
        mv = (d.get("_build") or {}).get("moved")
        if mv:
            mv["presave"] = True
            d["_presaved_move"] = True
            return d
    return None


def known_witnesses(ctx, tmp):
    from ..check import load_known, VERIF
    import glob
    for k in load_known():
        if k["property"] == ctx.prop and k.get("status") == "open" and "witness_desc" in k:
            ctx.stats["witness_runs"] += 1
            run_case(ctx, tmp, k["witness_desc"], "witness")
    for f in sorted(glob.glob(os.path.join(VERIF, "corpus", ctx.prop, "*.json"))):
        run_case(ctx, tmp, json.load(open(f))["case"], "corpus")


def stream(ctx, tmp, n, n_small):
    rng = ctx.rng
    skipped = 0
    for k in range(n):
        r = run_case(ctx, tmp, main_desc(rng), "main", versions=(k % 10 == 0), dropkeys=(k % 4 == 0))
        skipped += r == "skip"
    for _ in range(n_small):
        run_case(ctx, tmp, diode_desc(rng), "diode")
        run_case(ctx, tmp, reserved_desc(rng), "reserved-name")
        run_case(ctx, tmp, nonappl_desc(rng), "nonapplicable-limits")
        for _k in range(3):
            run_case(ctx, tmp, open_limits_desc(rng), "open-ended-limits", model=False)
        for _k in range(3):
            d = presaved_move_desc(rng)
            if d is not None:
                run_case(ctx, tmp, d, "presaved-move", model=False)
    if n and skipped > 0.2 * n:
        raise RuntimeError("more than 20%% of the generated systems could not be built/saved (%d/%d)" % (skipped, n))


def run(ctx):
    tmp = tempfile.mkdtemp(prefix="c12-")
    try:
        known_witnesses(ctx, tmp)
        stream(ctx, tmp, ctx.n(350, 8000), ctx.n(6, 60))
    finally:
        shutil.rmtree(tmp, ignore_errors=True)


def search(ctx):
    tmp = tempfile.mkdtemp(prefix="c12-")
    try:
        stream(ctx, tmp, ctx.n(300, 1500), ctx.n(10, 40))
    finally:
        shutil.rmtree(tmp, ignore_errors=True)


def replay(ctx, data):
    tmp = tempfile.mkdtemp(prefix="c12-")
    try:
        c = data["case"]
        if "doc" in c and "comps" not in c:
            f = os.path.join(tmp, "r.json")
            json.dump(c["doc"], open(f, "w"))
            _, e = sysdesc.quiet_call(System.from_file, f)
            m = ctx.drv.ask({"cmd": "doc", "op": "load", "carrier": "rat", "lib": LIBVER, "doc": wire.pv(c["doc"])})
            mload = "ok" if "ok" in m["load"] else m["load"]["err"]["cls"]
            ctx.notes.append("replay of an edited document: from_file -> %s, model -> %s" % (exc_name(e), mload))
            if mload != exc_name(e) and not mload.startswith("outside-model"):
                ctx.corr(c, "from_file: outcome class on an edited document", {"impl": exc_name(e), "model": mload})
            ver = c["doc"].get("system", {}).get("version")
            if isinstance(ver, str) and ver.count(".") == 2 and all(x.isdigit() for x in ver.split(".")):
                newer = tuple(map(int, ver.split("."))) > tuple(map(int, LIBVER.split(".")))
                if newer != (exc_name(e) == "ValueError"):
                    ctx.oracle(c, "version_gate", "system", {}, {"library": LIBVER, "file": ver, "from_file": exc_name(e)})
        else:
            if c.get("_open_limits") or c.get("_presaved_move"):
                run_case(ctx, tmp, c, "replay", model=False)
            else:
                run_case(ctx, tmp, c, "replay", versions=True, dropkeys=True)
    finally:
        shutil.rmtree(tmp, ignore_errors=True)
