"""C10 — tabulated parameters: exact on the grid, linear between, clamped outside, sign-insensitive,
constant table = constant."""
import copy, math

from .. import ctorgen, gen, probe, solved, sysdesc, wire
from ..gen import sd, ud

CLAIM = True
LEVEL_TEXT = ("Theorems (Lean 4, any linearly ordered field, ALL tables with strictly increasing non-negative io axis — and vi axis "
              "for 2-D —, all queries, all diagonal choices of the triangulation): value at a knot = tabulated value; affine on every "
              "1-D segment; along a 2-D grid line the affine interpolant of the two adjacent knots for either diagonal; inside a cell "
              "between min and max of the four corners (for every enclosing cell, and such a cell exists for every query); outside the "
              "table = value at the clamped point; query and table signs ignored; a table of constant entries c evaluates to |c| "
              "everywhere (1-D with no condition on the axis, 2-D on every well-conditioned grid); for tables as the constructors accept "
              "them (io axis increasing in magnitude, vi rows in ANY order and sign) every query stays within the range of the tabulated "
              "magnitudes (interp2_global_range) and 1-D knot exactness holds (interp1_knot_abs). The interpolator model is tied to "
              "the code on every run through the probe Source(V) -> component(table) -> ILoad(I) for all seven table-bearing "
              "(kind, parameter) pairs. Props/C10Rows lifts knot / grid-line / cell / clamp exactness to vi rows given in ANY "
              "order and sign with pairwise distinct magnitudes (`interp2_rows_order_free`, `interp2_knot_any_order`, `..._edge_...`, "
              "`..._cell_...`, `..._clamp_...`, and for every table `mkTable` accepts: `mkTable_knot_any_order`); rows of EQUAL |vi| are "
              "accepted by constructor and model alike but are outside the property's conditioning, and there the model's row order is not "
              "the implementation's (`dup_rows_not_order_free` shows the distinctness hypothesis cannot be dropped). Former finding F11 (axis "
              "increasing as given but not in magnitude) is fixed in /repo; the witness stays as a regression stream.")
LEVEL_NOTE = "scipy's Qhull triangulation is a parameter (diag) of the model: every theorem quantifies over it; the harness accepts either diagonal."
MODULE = "SysLoss.Props.C10"
MODULES = ["SysLoss.Props.C10", "SysLoss.Props.C10Rows"]
THEOREMS = ["SysLoss.C10." + t for t in (
    "interp1_knot", "interp1_linear", "interp1_range", "interp1_clamp_left", "interp1_clamp_right", "interp1_clamp",
    "interp1_sign", "interp_sign_as_used", "interp1_table_sign", "interp2_table_sign", "interp1_const",
    "cellVal_range", "interp2_inside", "interp2_clamp", "clamp_is_nearest", "interp2_eq_cellAt", "interp2_edge_x",
    "interp2_edge_y", "interp2_knot", "interp2_range", "interp2_range_exists", "interp2_const",
    "param_const_table_1d", "param_const_table_2d", "interp1_abs_axis", "interp1_knot_abs", "interp2_global_range",
    "knot_negative_axis_fails",
    # Props/C10Rows: vi rows given in ANY order and sign (distinct magnitudes)
    "sortRows_perm", "sortRows_sorted", "sortRows_eq_of_perm", "interp2_rows_order_free", "interp2_eq_normal", "normal_grid",
    "interp2_knot_any_order", "interp2_edge_y_any_order", "interp2_edge_x_any_order", "interp2_edge_any_order",
    "interp2_cell_any_order", "interp2_clamp_any_order", "accepted_of_mkTable", "mkTable_knot_any_order", "mkTable_clamp_any_order",
    "dup_rows_accepted", "dup_rows_model_value", "dup_rows_not_order_free")]
RULE = ("well-conditioned tables per the property (io strictly increasing, 2-8 columns, 1-6 vi rows mostly in increasing order and "
        "20% shuffled, steps >= 1e-3 of the largest coordinate, first io knot 0 in 30%) for Converter.eff, VLoss.vdrop, LinReg.ig, "
        "PSwitch.ig, PMux.ig, Rectifier.vdrop, Rectifier.ig; per table queries on knots, on grid lines, inside cells and outside on "
        "all 8 sides/corners (1-D: both sides), each observed through Source(V) -> component -> ILoad(I) solved with "
        "vtol=itol=1e-12; non-trivial = query not on a knot; distinct by (pair, table, query)")
ASSUMPTIONS = ["IEEE rounding is outside the theorems: recovered parameter compared with the exact model value under 1e-7 relative + 1e-9 "
               "(the probe chain is feed-forward, so the solver's fixed absolute tolerance 1e-8 does not enter for table values >= 1e-4)",
               "the recovery formulas vdrop = |Vin|-|Vout| (/2 for the diode bridge), eff = vo*Io/(Vin*Iin), ig = Iin-Io are the documented "
               "laws of the components (property C01); io = 0 queries are skipped for Converter.eff and Rectifier.ig (the laws return iq there)",
               "only the sign of the voltage argument can be flipped through the public API (negative Source); load currents are magnitudes"]
EXPLANATION = ("theorems about interp1/interp2/Param.interp (Props/C10.lean, helper lemmas Proofs/Interp.lean); correspondence: driver "
               "command `interp` (mkTable + Param.interp at Rat) against the parameter recovered from the implementation's solved row, either "
               "diagonal accepted for 2-D; oracle: knot exactness, linearity along grid lines, range within corner values, clamping, sign "
               "insensitivity, constant-table equivalence on whole systems, finiteness — computed from the raw table in Python")

PAIRS = [("converter", "eff"), ("vloss", "vdrop"), ("linreg", "ig"), ("pswitch", "ig"), ("pmux", "ig"),
         ("rectifier", "vdrop"), ("rectifier", "ig")]
VMAX, IMAX = 30.0, 2.0


def tol(x):
    return 1e-7 * abs(x) + 1e-9


def comp_args(kind, z, table):
    if kind == "converter":
        return {"vo": 3.3, "eff": table}
    if kind == "linreg":
        return {"vo": 1.0, "ig": table}
    if kind == "rectifier" and z == "vdrop":
        return {"vdrop": table}
    return {z: table}


def value_range(z, vlo):
    if z == "eff":
        return 0.3, 1.0
    if z == "vdrop":
        return 0.01 * vlo, 0.08 * vlo               # < |Vin| / 4 for every query voltage (bridge: twice the drop)
    return 1e-4, 1e-1


def gen_case(rng):
    kind, z = rng.choice(PAIRS)
    nvi = rng.choice([1, 1, 2, 2, 3, 4, 5, 6])
    t = ctorgen.gen_table(rng, z, 0.0, 1.0, nvi=nvi, vmax=VMAX, imax=IMAX)
    while min(abs(v) for v in t["vi"]) < 0.5:
        t = ctorgen.gen_table(rng, z, 0.0, 1.0, nvi=nvi, vmax=VMAX, imax=IMAX)
    vis = sorted(abs(v) for v in t["vi"])
    vq_lo = 0.5 * vis[0] if nvi > 1 else 1.0
    lo, hi = value_range(z, vq_lo)
    t[z] = [[ud(rng, lo, hi, 4) for _ in t["io"]] for _ in t["vi"]]
    r = rng.random()
    if nvi > 1 and r < 0.08:
        t[z] = [[x] * len(t["io"]) for x in (ud(rng, lo, hi, 4) for _ in t["vi"])]      # depends on vi only: every row constant along io
    elif r < 0.14:
        col = [ud(rng, lo, hi, 4) for _ in t["io"]]
        t[z] = [list(col) for _ in t["vi"]]                                             # depends on io only: all rows equal
    if z == "vdrop" and rng.random() < 0.25:
        # drops written with a sign (the rail's, or a datasheet convention): table data are taken in magnitude, all of them or some
        allneg = rng.random() < 0.6
        t[z] = [[(-x if (allneg or rng.random() < 0.4) else x) for x in row] for row in t[z]]
    if z == "eff" and rng.random() < 0.12:
        # entries exactly at the end of the documented range (0 < eff <= 1): an ideal stage at some operating points, or everywhere
        if rng.random() < 0.3:
            t[z] = [[rng.choice([1.0, 1]) for _ in row] for row in t[z]]
        else:
            for row in t[z]:
                for k in range(len(row)):
                    if rng.random() < 0.3:
                        row[k] = 1.0
    if rng.random() < 0.1 and 0 < t["io"][0] < t["io"][1]:
        t["io"][0] = -t["io"][0]               # a negative sign on the first knot keeps the axis increasing in magnitude
    if nvi > 1 and rng.random() < 0.1:
        r = rng.randrange(nvi)
        t["vi"][r] = -t["vi"][r]               # table data are taken in magnitude
    if rng.random() < 0.12:
        # axes written as Python ints (a datasheet with whole amperes / volts): the numeric TYPE of an axis must not matter
        n = len(t["io"])
        t["io"] = sorted(rng.sample(range(0, max(n + 2, 5)), n))
        if nvi > 1 and rng.random() < 0.3:
            t["vi"] = [int(round(abs(v))) + k for k, v in enumerate(sorted(t["vi"], key=abs))]
            t["io"] = [float(x) + 0.5 for x in t["io"]]
    return kind, z, t


class Tab:
    """the table as the property reads it: axes in magnitude, rows sorted by vi"""

    def __init__(self, t, z):
        self.io = [abs(float(x)) for x in t["io"]]
        order = sorted(range(len(t["vi"])), key=lambda r: abs(t["vi"][r]))
        self.vi = [abs(float(t["vi"][r])) for r in order]
        self.f = [[abs(float(x)) for x in t[z][r]] for r in order]
        self.dim = 1 if len(self.vi) == 1 else 2

    @staticmethod
    def seg(axis, x):
        """index j with axis[j] <= x <= axis[j+1] (x inside the axis range)"""
        for j in range(len(axis) - 1):
            if axis[j] <= x <= axis[j + 1]:
                return j
        raise ValueError((axis, x))

    def clampx(self, x):
        return min(max(x, self.io[0]), self.io[-1])

    def clampy(self, y):
        return min(max(y, self.vi[0]), self.vi[-1])

    def along_io(self, r, x):
        """affine interpolant along row r"""
        j = self.seg(self.io, x)
        a, b = self.f[r][j], self.f[r][j + 1]
        return a + (b - a) * (x - self.io[j]) / (self.io[j + 1] - self.io[j])

    def along_vi(self, k, y):
        j = self.seg(self.vi, y)
        a, b = self.f[j][k], self.f[j + 1][k]
        return a + (b - a) * (y - self.vi[j]) / (self.vi[j + 1] - self.vi[j])

    def corners(self, x, y):
        k = self.seg(self.io, x)
        if self.dim == 1:
            return [self.f[0][k], self.f[0][k + 1]]
        r = self.seg(self.vi, y)
        return [self.f[r][k], self.f[r][k + 1], self.f[r + 1][k], self.f[r + 1][k + 1]]

    def expect(self, x, y):
        """-> ("eq", value) when the property fixes the value at (x, y) [knot, grid line, 1-D], else ("range", lo, hi);
        (x, y) is clamped first (clause: outside = value at the nearest point of the rectangle)"""
        x = self.clampx(x)
        if self.dim == 1:
            return ("eq", self.along_io(0, x))
        y = self.clampy(y)
        if x in self.io:
            return ("eq", self.along_vi(self.io.index(x), y))
        if y in self.vi:
            return ("eq", self.along_io(self.vi.index(y), x))
        c = self.corners(x, y)
        return ("range", min(c), max(c))


def between(rng, a, b):
    return float("%.6g" % (a + (b - a) * rng.uniform(0.15, 0.85)))


def gen_queries(rng, tab, nq):
    """[(class, I, V)]"""
    io, vi = tab.io, tab.vi
    out = []
    vany = lambda: sd(rng, 2.0, 40.0)  # noqa
    for _ in range(nq):
        c = rng.choice(["knot", "knot", "line_y", "line_y", "line_x", "cell", "cell", "outside", "outside"])
        k = rng.randrange(len(io) - 1)
        if tab.dim == 1:
            if c in ("line_x", "cell"):
                c = "line_y"
            if c == "knot":
                out.append((c, io[rng.randrange(len(io))], vany()))
            elif c == "line_y":
                out.append((c, between(rng, io[k], io[k + 1]), vany()))
            else:
                side = rng.choice(["lo", "hi"])
                if side == "lo" and io[0] > 0:
                    out.append(("outside:W", float("%.6g" % (io[0] * rng.uniform(0.2, 0.9))), vany()))
                else:
                    out.append(("outside:E", float("%.6g" % (io[-1] * rng.uniform(1.05, 3.0))), vany()))
            continue
        r = rng.randrange(len(vi) - 1)
        if c == "knot":
            out.append((c, io[rng.randrange(len(io))], vi[rng.randrange(len(vi))]))
        elif c == "line_y":
            out.append((c, between(rng, io[k], io[k + 1]), vi[rng.randrange(len(vi))]))
        elif c == "line_x":
            out.append((c, io[rng.randrange(len(io))], between(rng, vi[r], vi[r + 1])))
        elif c == "cell":
            out.append((c, between(rng, io[k], io[k + 1]), between(rng, vi[r], vi[r + 1])))
        else:
            sides = ["N", "S", "E", "NE", "SE"] + (["W", "NW", "SW"] if io[0] > 0 else [])
            s = rng.choice(sides)
            x = between(rng, io[k], io[k + 1]) if rng.random() < 0.7 else io[rng.randrange(len(io))]
            y = between(rng, vi[r], vi[r + 1]) if rng.random() < 0.7 else vi[rng.randrange(len(vi))]
            if "W" in s:
                x = float("%.6g" % (io[0] * rng.uniform(0.2, 0.9)))
            if "E" in s:
                x = float("%.6g" % (io[-1] * rng.uniform(1.05, 3.0)))
            if "S" in s:
                y = float("%.6g" % (vi[0] * rng.uniform(0.55, 0.95)))
            if "N" in s:
                y = float("%.6g" % (vi[-1] * rng.uniform(1.05, 1.5)))
            out.append(("outside:" + s, x, y))
    return out


def run_probes(kind, z, table, queries, single=False, decoy=None):
    """queries [(class, I, V)] -> list of (class, I, V, row | None); the mux takes one system per query"""
    args = comp_args(kind, z, table)
    groups = [[q] for q in queries] if (kind == "pmux" or single) else [queries]
    out = []
    for gi, g in enumerate(groups):
        # every second mux probe runs from its second input (first input at 0 V)
        branches = [{"v": v, "i": i, "kind": kind, "args": args, "dead_first": kind == "pmux" and gi % 2 == 1}
                    for (_c, i, v) in g]
        desc, names = probe.probe_desc(branches)
        if decoy is not None:
            desc["_decoys"] = [{"kind": kind, "args": comp_args(kind, z, decoy)}]
        rows, obs, sys_, df, err = probe.solve_probe(desc)
        for (c, i, v), n in zip(g, names):
            out.append((c, i, v, None if err is not None else rows[n], err))
    return out


def model_values(ctx, table, z, pts):
    w = wire.pv(table)
    d = sysdesc.table_diag(table, z)
    if d is not None:
        w["$d"].append(["__diag", d])
    m = ctx.drv.ask({"cmd": "interp", "carrier": "rat", "z": z, "table": w,
                     "queries": [[wire.num(x), wire.num(y)] for x, y in pts]})
    return m


def check_table(ctx, kind, z, table, queries, case, f11=False, fine=False):
    """one table: probes, correspondence with the model, oracle; returns the number of usable probes"""
    tab = Tab(table, z)
    args = comp_args(kind, z, table)
    res = run_probes(kind, z, table, queries, single=fine, decoy=case.get("decoy") if isinstance(case, dict) else None)
    usable = []
    for (c, i, v, row, err) in res:
        if f11 and err is not None and err[0] == "build" and probe.exc_name(err[1]) == "ValueError":
            ctx.stats["f11_stream:rejected_by_constructor"] += 1     # the repaired behaviour (b59f1ff)
            ctx.case(key=[kind, z, repr(table), i, v], nontrivial=True)
            continue
        if err is not None:
            ctx.stats["probe_error:%s" % probe.exc_name(err[1])] += 1
            if fine and err[0] == "solve" and "Unstable system" in str(err[1]):
                # a NaN lookup (the laws compare signs with it): the property says "never NaN"
                ctx.case(key=[kind, z, repr(table), i, v], nontrivial=True)
                ctx.oracle(dict(case, queries=[[c, i, v]]), "never_nan", kind, {"fine_step": True, "dim": 2},
                           {"pair": kind + "." + z, "query": [i, v], "class": c, "error": str(err[1]),
                            "min_step_over_largest_coordinate": case.get("step_ratio")})
                continue
            ctx.oracle(case, "probe_solves", kind, {}, {"query": [i, v], "error": repr(err[1])})
            continue
        if (z == "eff" or (kind == "rectifier" and z == "ig")) and row["iout"] == 0.0:
            ctx.stats["skipped:io=0"] += 1
            continue
        val = probe.recover(kind, z, row, args)
        usable.append((c, i, v, row, val))
    if not usable:
        return 0
    pts = [(row["iout"], abs(row["vin"])) for (_c, _i, _v, row, _val) in usable]
    m = None
    if not f11:
        m = model_values(ctx, table, z, pts)
        if not m.get("ok"):
            ctx.corr(case, "table accepted by the implementation, refused by the model", m)
            m = None
    for n, (c, i, v, row, val) in enumerate(usable):
        key = [kind, z, repr(table), i, v]
        ctx.case(key=key, nontrivial=(c != "knot"), sample={"pair": kind + "." + z, "dim": tab.dim, "class": c,
                                                            "query": [i, v], "value": val})
        ctx.stats["query:" + c] += 1
        ctx.traces += 1
        # pins: the probe really looks the table up at (I, |V|)
        if row["iout"] != i or abs(row["vin"]) != abs(v):
            ctx.oracle(case, "probe_pins", kind, {}, {"query": [i, v], "row": row})
            continue
        if val is None or not math.isfinite(val):
            ctx.oracle(case, "never_nan" if fine else "finite", kind, {"fine_step": True, "dim": 2} if fine else {},
                       {"query": [i, v], "value": val, "row": row})
            continue
        # oracle
        e = tab.expect(i, abs(v)) if not f11 else ("eq", abs(float(table[z][0][table["io"].index(-i if -i in table["io"] else i)])))
        trig = {"abs_io_not_increasing": True, "dim": 1} if f11 else ({"fine_step": True, "dim": 2} if fine else {})
        clause = {"knot": "knot_exact", "line_x": "linear_on_grid_line", "line_y": "linear_on_grid_line",
                  "cell": "range_in_cell"}.get(c, "clamped_outside")
        bad = False
        if e[0] == "eq":
            if abs(val - e[1]) > tol(e[1]):
                bad = True
                ctx.oracle(case, clause, kind, trig, {"pair": kind + "." + z, "query": [i, v], "class": c, "impl": val,
                                                       "property": e[1], "row": {k: row[k] for k in ("vin", "vout", "iin", "iout")}})
        else:
            if val < e[1] - tol(e[1]) or val > e[2] + tol(e[2]):
                bad = True
                ctx.oracle(case, "range_in_cell" if c == "cell" else clause, kind, trig,
                           {"pair": kind + "." + z, "query": [i, v], "class": c, "impl": val, "range": [e[1], e[2]]})
        # correspondence (either diagonal for 2-D).  In the fine-step stream (open finding F31: Qhull loses grid points and
        # scipy returns values the rectangular-grid model cannot mirror) a point on which the property's own statement
        # already fails is reported through the oracle only.
        if m is not None and not (fine and bad):
            cands = [float(wire.unnum(m[kk][n])) for kk in ("values", "values_t", "values_f")]
            if not any(abs(val - x) <= tol(x) for x in cands):
                ctx.corr(case, "interp: model value (either diagonal) = parameter recovered from the solved row",
                         {"pair": kind + "." + z, "query": [i, v], "class": c, "impl": val, "model": cands, "row": row})
    return len(usable)


def check_sign(ctx, kind, z, table, queries, case):
    """query sign ignored: the same probe from a negative Source looks up the same value"""
    args = comp_args(kind, z, table)
    qs = [(c, i, v) for (c, i, v) in queries[:3]]
    pos = run_probes(kind, z, table, qs)
    neg = run_probes(kind, z, table, [(c, i, -v) for (c, i, v) in qs])
    for (c, i, v, row, err), (_c, _i, _v, nrow, nerr) in zip(pos, neg):
        if err is not None or nerr is not None:
            if nerr is not None and err is None:
                ctx.oracle(case, "sign_insensitive", kind, {}, {"query": [i, -v], "error": repr(nerr[1])})
            continue
        if (z == "eff" or (kind == "rectifier" and z == "ig")) and row["iout"] == 0.0:
            continue
        a, b = probe.recover(kind, z, row, args), probe.recover(kind, z, nrow, args)
        ctx.stats["sign_pairs"] += 1
        ctx.case(key=[kind, z, repr(table), i, -v], nontrivial=True)
        if a is None or b is None or abs(a - b) > tol(a):
            ctx.oracle(case, "sign_insensitive", kind, {}, {"pair": kind + "." + z, "query": [i, v], "pos": a, "neg": b})
        else:
            # the looked-up value also enters Power / Loss / Efficiency: those cells must not depend on the rail's sign either
            for col in ("pwr", "loss", "eff"):
                x, y = row[col], nrow[col]
                if abs(x - y) > 1e-7 * max(abs(x), abs(y)) + 1e-9:
                    ctx.oracle(case, "sign_insensitive", kind, {"col": col},
                               {"pair": kind + "." + z, "query": [i, v], "col": col, "pos": x, "neg": y})
                    break


def const_twin(desc):
    """(system with every table replaced by a table of constant entries c, the same with the constant c)"""
    a, b = copy.deepcopy(desc), copy.deepcopy(desc)
    n = 0
    for ca, cb in zip(a["comps"], b["comps"]):
        for k, v in list(ca["args"].items()):
            if isinstance(v, dict) and k != "limits" and "vi" in v and "io" in v:
                z = k
                c = v[z][0][0]
                ca["args"][k] = dict(v, **{z: [[c for _ in v["io"]] for _ in v["vi"]]})
                cb["args"][k] = c
                n += 1
    return a, b, n


def check_const(ctx, desc):
    a, b, n = const_twin(desc)
    if n == 0:
        return
    ra = solved.solve_case(a, probe.SOLVE_KW)
    rb = solved.solve_case(b, probe.SOLVE_KW)
    ctx.case(key=solved.desc_key(a), nontrivial=True)
    ctx.stats["const_table_systems"] += 1
    ctx.stats["const_tables"] += n
    if (ra[2] is None) != (rb[2] is None):
        ctx.oracle(a, "const_table", "system", {}, {"table_system": repr(ra[2]), "constant_system": repr(rb[2])})
        return
    if ra[2] is not None:
        if sysdesc.exc_class(ra[2][1]) != sysdesc.exc_class(rb[2][1]):
            ctx.oracle(a, "const_table", "system", {}, {"table_system": repr(ra[2]), "constant_system": repr(rb[2])})
        return
    oa, ob = sysdesc.observe(ra[1]), sysdesc.observe(rb[1])
    for pa, pb in zip(oa["phases"], ob["phases"]):
        for x, y in zip(pa["rows"] + [pa["total"]], pb["rows"] + [pb["total"]]):
            for col in sysdesc.NUMCOLS:
                u, w = x.get(col), y.get(col)
                if u is None and w is None:
                    continue
                if u is None or w is None or not math.isfinite(u) or abs(u - w) > 1e-9 * max(abs(u), abs(w), 1e-3):
                    ctx.oracle(a, "const_table", "system", {}, {"row": x["name"], "col": col, "table": u, "constant": w})
                    return
        if [r.get("warn") for r in pa["rows"]] != [r.get("warn") for r in pb["rows"]]:
            ctx.oracle(a, "const_table", "system", {}, {"warnings_table": [r.get("warn") for r in pa["rows"]],
                                                       "warnings_constant": [r.get("warn") for r in pb["rows"]]})


F11_WITNESS = {"vi": [5.0], "io": [-2.0, -1.0], "vdrop": [[0.1, 0.2]]}
# finding F31-C10-QHULL-NAN: the smallest io step is 3.4e-4 of the largest coordinate (the property's conditioning allows 1e-4);
# the lookups at the tabulated points (1.8365 A | 1.8731 A | 1.9457 A, 5.115 V) are NaN
FINE_WITNESSES = [
    ("linreg", "ig", {"vi": [2.075, 5.115], "io": [0.12703, 1.1307, 1.13244, 1.8365, 1.8731, 1.9457],
                      "ig": [[0.05303, 0.08741, 0.09697, 0.04409, 0.05634, 0.03143],
                             [0.06799, 0.07987, 0.04015, 0.04122, 0.09567, 0.01179]]}),
    # second symptom of the same defect: a finite but wrong value (the entry of the last vi row) at the knot (0.16271 A, 2.799 V)
    ("pswitch", "ig", {"vi": [2.799, 3.911, 5.478], "io": [0.16271, 0.59073, 0.86135, 0.8621446, 1.6585],
                       "ig": [[0.03899, 0.07239, 0.05387, 0.02863, 0.03669], [0.0747, 0.09232, 0.03798, 0.01623, 0.03074],
                              [0.06378, 0.02266, 0.0223, 0.08845, 0.0125]]}),
]


def gen_fine(rng):
    """2-D table with ONE io step between 1e-4 and 1e-3 of the largest coordinate of the table (inside the property's
    conditioning, where scipy's Delaunay triangulation of the grid starts to lose boundary points)"""
    kind, z = rng.choice([p for p in PAIRS if p[0] != "pmux"])
    vmax = rng.uniform(5.0, 30.0)
    nvi = rng.choice([2, 3, 4])
    while True:
        vis = sorted(float("%.4g" % rng.uniform(0.3 * vmax, vmax)) for _ in range(nvi - 1)) + [float("%.4g" % vmax)]
        if min(b - a for a, b in zip(vis, vis[1:])) >= 0.05 * vmax:
            break
    top = max(vis)
    nio = rng.randint(3, 6)
    while True:
        r = rng.uniform(1.0e-4, 1.0e-3)
        ios = sorted(float("%.5g" % rng.uniform(0.05, IMAX)) for _ in range(nio))
        k = rng.randrange(nio - 1)
        ios[k + 1] = float("%.7g" % (ios[k] + 1.02 * r * top))
        ios = sorted(ios)
        if min(b - a for a, b in zip(ios, ios[1:])) >= r * top and len(set(ios)) == nio:
            break
    lo, hi = value_range(z, 0.5 * vis[0])
    t = {"vi": vis, "io": ios, z: [[ud(rng, lo, hi, 4) for _ in ios] for _ in vis]}
    ratio = min(b - a for a, b in zip(ios, ios[1:])) / top
    return kind, z, t, ratio


def gen_f11(rng):
    """1-D table whose io axis is strictly increasing but not in magnitude (finding F11)"""
    kind, z = rng.choice([p for p in PAIRS])
    n = rng.randint(2, 4)
    neg = sorted(-sd(rng, 0.05, IMAX) for _ in range(n))
    while any(b - a < 1e-3 * IMAX for a, b in zip(neg, neg[1:])):
        neg = sorted(-sd(rng, 0.05, IMAX) for _ in range(n))
    lo, hi = value_range(z, 1.0)
    t = {"vi": [5.0], "io": neg, z: [[ud(rng, lo, hi, 4) for _ in neg]]}
    return kind, z, t


def fine_stream(ctx, kind, z, t, ratio):
    tab = Tab(t, z)
    qs = [("knot", x, y) for x in (tab.io[0], tab.io[-1]) for y in (tab.vi[0], tab.vi[-1])]
    qs += [("knot", tab.io[ctx.rng.randrange(len(tab.io))], tab.vi[ctx.rng.randrange(len(tab.vi))]) for _ in range(2)]
    qs += [("outside:NE", 1.5 * tab.io[-1], 1.2 * tab.vi[-1]), ("outside:SE", 1.5 * tab.io[-1], 0.8 * tab.vi[0])]
    qs = [q for q in qs if q[1] > 0]
    ctx.stats["fine_step_stream"] += 1
    check_table(ctx, kind, z, t, qs, {"kind": kind, "z": z, "table": t, "queries": qs, "step_ratio": ratio, "fine": True},
                fine=True)


def corpus_f11():
    import glob, json, os
    out = []
    for f in sorted(glob.glob(os.path.join(wire.VERIF, "corpus", "C10", "*.json"))):
        c = json.load(open(f))["case"]
        out.append((c["kind"], c["z"], c["table"]))
    return out


def run(ctx):
    ntab = ctx.n(700, 14000)
    for _ in range(ntab):
        kind, z, t = gen_case(ctx.rng)
        tab = Tab(t, z)
        nq = 1 if kind == "pmux" else ctx.rng.randint(3, 8)
        if kind == "pmux":
            nq = 2
        queries = gen_queries(ctx.rng, tab, nq)
        ctx.stats["pair:%s.%s" % (kind, z)] += 1
        ctx.stats["dim:%d" % tab.dim] += 1
        ctx.stats["nvi:%d" % len(t["vi"])] += 1
        ctx.stats["nio:%d" % len(t["io"])] += 1
        if t["vi"] != sorted(t["vi"]):
            ctx.stats["vi_shuffled"] += 1
        if t["io"][0] == 0.0:
            ctx.stats["io_starts_at_0"] += 1
        if t["io"][0] < 0 or any(v < 0 for v in t["vi"]):
            ctx.stats["negative_axis_entry"] += 1
        case = {"kind": kind, "z": z, "table": t, "queries": queries}
        if tab.dim == 2 and ctx.rng.random() < 0.25:
            # a sibling part characterised on the same grid (same axis values, rows listed in another order, other entries) was created
            # earlier in the process: tables are per component
            case["decoy"] = gen.decoy_table(ctx.rng, t, z)
            ctx.stats["with_decoy_on_same_grid"] += 1
        check_table(ctx, kind, z, t, queries, case)
        if ctx.rng.random() < 0.25:
            check_sign(ctx, kind, z, t, queries, case)
    # whole systems: table of constant entries = the constant
    for _ in range(ctx.n(150, 3000)):
        desc = gen.gen_system(ctx.rng, p_table=0.9, max_nodes=10, p_neg_src_rs=0.0, phases=0.1)
        check_const(ctx, desc)
    for kind, z in PAIRS:                       # and every pair on the probe itself
        t = ctorgen.gen_table(ctx.rng, z, 0, 1, const=0.5 if z != "ig" else 0.01)
        br = [{"v": 12.0, "i": 0.3, "kind": kind, "args": comp_args(kind, z, t)}]
        check_const(ctx, probe.probe_desc(br)[0])
    # finding F31-C10-QHULL-NAN: tables with an axis step between 1e-4 and 1e-3 of the largest coordinate (dedicated stream)
    for kind, z, t in FINE_WITNESSES:
        top = max(max(t["io"]), max(t["vi"]))
        fine_stream(ctx, kind, z, t, min(b - a for a, b in zip(t["io"], t["io"][1:])) / top)
    for _ in range(ctx.n(60, 3000)):
        fine_stream(ctx, *gen_fine(ctx.rng))
    # former finding F11 (io axis increasing as given but not in magnitude; fixed in /repo b59f1ff): the witness and a small
    # stream stay as regression — the table must be refused by the constructor, or evaluated exactly at its knots
    f11 = [("vloss", "vdrop", F11_WITNESS)] + corpus_f11() + [gen_f11(ctx.rng) for _ in range(ctx.n(6, 60))]
    for kind, z, t in f11:
        queries = [("knot", abs(x), 10.0) for x in t["io"]]
        ctx.stats["f11_stream"] += 1
        check_table(ctx, kind, z, t, queries, {"kind": kind, "z": z, "table": t, "queries": queries}, f11=True)


def search(ctx):
    for _ in range(ctx.n(300, 3000)):
        kind, z, t = gen_case(ctx.rng)
        queries = gen_queries(ctx.rng, Tab(t, z), 2 if kind == "pmux" else 6)
        check_table(ctx, kind, z, t, queries, {"kind": kind, "z": z, "table": t, "queries": queries})


def replay(ctx, data):
    case = data["case"]
    if "comps" in case:
        check_const(ctx, case)
        return
    qs = [tuple(q) for q in case["queries"]]
    f11 = any(x < 0 for x in case["table"]["io"]) and len(case["table"]["vi"]) == 1
    check_table(ctx, case["kind"], case["z"], case["table"], qs, case, f11=f11, fine=bool(case.get("fine")))
