"""C04 — a dead supply rail isolates everything below it."""
from .. import gen, oracles, tablecheck

CLAIM = True
MODULE = "SysLoss.Props.C04"
MODULES = ["SysLoss.Props.C04", "SysLoss.Props.C04Tree", "SysLoss.Props.C04Atol"]
THEOREMS = ["SysLoss.C04." + t for t in (
    "dead_input", "dead_input_power", "dead_source", "mux_no_live", "priInpAux_none_of_all_zero", "sleep_current", "sleep_current_mux", "dead_child", "dead_chain",
    # Props/C04Tree: whole subtrees incl. PMux nodes and PMux children, the table rows, and the solver's iterates
    "dead_subtree", "steady_of_sweeps", "dead_subtree_of_sweeps", "dead_mux", "Below.mux_of_or", "childShare_dead", "childCurr_dead",
    "dead_rows", "dead_rows_of_sweeps", "childsOK_of_b", "fwd_dead_single", "back_dead_single", "dead_input_flag", "dead_after_sweeps",
    "deadTo_step", "loop_dead", "dead_after_k_sweeps", "alwaysDead_source")] + ["SysLoss.C04A." + t for t in (
    # Props/C04Atol: the property at a TOLERANCE exit of the solver (finding F38): what is false, and what holds instead
    "f38_dead_supply_witness", "f38_sleep_current_witness", "f38_sleep_converter_witness", "deep_not_bounded_witness",
    "converged_pointwise", "convergedAt_bound", "tolerance_exit_bound", "dead_cell_within_atol", "dead_below_source_within_atol",
    "sleep_current_within_atol", "atol_zero_exact", "atol_zero_dead_rows")]
LEVEL_TEXT = ("Theorems (Lean 4, any ordered field): every non-source kind with a dead (0 V or flagged) supply outputs 0 V, draws 0 A and reports zero power and loss; a 0 V or phase-inactive Source and a PMux without live input likewise; a phase-inactive converter/regulator/switch/mux on a live supply draws exactly its sleep current; and in every steady state of a whole system each single-supply component below a node at 0 V is at 0 V / 0 A, hence (induction along the chain) everything below it; Props/C04Tree extends this to whole subtrees (`dead_subtree`: every node all of whose supplies are dead, PMux nodes with only dead inputs and PMux children running from another live input included), to the assembled table rows (`dead_rows`: Vin = Vout = Iin = Iout = Power = Loss = 0) and to the solver's own iterates (`dead_after_sweeps`, `loop_dead`, `dead_after_k_sweeps`: death moves one level per sweep, so what solve() returns after k sweeps is exactly 0 V / 0 A down to depth k-1 below a structurally dead source). Tied to the code on every run: all cells of trees with planted dead elements re-assembled by the model from the implementation's (v,i) (1e-9), one more model sweep reproduces (v,i), and the oracle demands exact zeros below every structurally dead element.")
LEVEL_NOTE = ('Exact-steady-state theorems cover arbitrary trees incl. the mux; the iterate form (`dead_after_k_sweeps`) covers single-supply levels within iters-1 of a dead source - a tolerance exit before the dead front has reached deeper nodes is not excluded by a theorem (the oracle demands exact zeros on every generated case).')
LEVEL_NOTE = LEVEL_NOTE + (" F38 (open, three faces - `F38-C04-ATOL`, `-SLEEP`, `-DEEP`): what solve() returns is a TOLERANCE exit (numpy's fixed atol 1e-8, previous iterate returned). "
              "Props/C04Atol proves on the model what that means: the exact-zero and exact-sleep-current clauses are FALSE there (`f38_dead_supply_witness`, "
              "`f38_sleep_current_witness`, `deep_not_bounded_witness`: kernel-checked witnesses at the implementation's default settings, each reproduced on /repo), what holds "
              "instead is |cell| <= atol one level below the dead element and |Iin - iis| <= atol + itol*iis for a sleeping stage (`dead_cell_within_atol`, "
              "`dead_below_source_within_atol`, `sleep_current_within_atol`, from `tolerance_exit_bound`), no bound deeper down, and exactness with atol = vtol = itol = 0 "
              "(`atol_zero_exact`, `atol_zero_dead_rows`). The oracle keeps demanding exact values; deviations of exactly this kind are matched to the three open entries.")
RULE = ("random power trees with planted dead elements: 0 V sources, phase-inactive sources / converters / regulators / switches / "
        "muxes (component phase lists that omit phases), muxes without live input; non-trivial = at least one phase contains a dead "
        "element with something below or beside it")
ASSUMPTIONS = ["exact zeros are demanded (no tolerance): a dead branch is computed from literal 0.0 values"]


def gen_fn(rng):
    if rng.random() < 0.1:
        return gen.mux_failover(rng)
    d = gen.gen_system(rng, phases=0.7, p_neg_src_rs=0.0, max_nodes=16, p_micro=0.15)
    srcs = [c for c in d["comps"] if c["kind"] == "source"]
    if rng.random() < 0.35:
        rng.choice(srcs)["args"]["vo"] = 0.0
    if rng.random() < 0.15:
        for s in srcs:
            s["args"]["vo"] = 0.0
    if rng.random() < 0.25:
        moved_into_dead(rng, d)
    if d.get("phases") and rng.random() < 0.2:
        nano_sleep(rng, d)
    if rng.random() < 0.3:
        d["_solve_kw"] = {}              # the solver's DEFAULT tolerances (what most callers use); exact zeros / sleep currents all the same
    return d


def nano_sleep(rng, d):
    """sleep currents of pico- to nano-amperes (below every tolerance the solver uses) on stages that are switched off in some phase:
    a sleeping stage on a live supply draws exactly its sleep current, however small"""
    names = list(d["phases"])
    for c in d["comps"]:
        if c["kind"] in ("converter", "linreg", "pswitch", "pmux"):
            c["args"]["iis"] = float("%.3g" % (10.0 ** -rng.uniform(6.3, 11.0)))
            if not isinstance(c.get("pconf"), list) or not c["pconf"] or set(names) <= set(c["pconf"]):
                if rng.random() < 0.6 and len(names) >= 2:
                    c["pconf"] = rng.sample(names, rng.randint(1, len(names) - 1))
                    if ((d.get("_build") or {}).get("retouch") or {}).get("x") == c["name"]:
                        d["_build"].pop("retouch")          # that plan is for a component WITHOUT a phase configuration
    r = rng.random()
    if r < 0.4:
        d["_solve_kw"] = {}
    elif r < 0.75:
        d["_solve_kw"] = {"vtol": 1e-4, "itol": 1e-4}       # a caller who trades accuracy for speed: relative tolerances only scale with the value


def moved_into_dead(rng, d):
    """build history: a leaf that ends up below a structurally dead element is first attached to a LIVE stage, the system is
    solved, the leaf is deleted and re-added under the same name at its real (dead) place - whatever an earlier solve cached
    about the wiring, the leaf must be at exactly 0 V / 0 A afterwards (sysdesc.build: plan `moved`)"""
    phases = list(d.get("phases") or {}) or [None]
    dead_any = {}
    for ph in phases:
        for n, v in oracles.structural_dead(d, ph).items():
            dead_any[n] = dead_any.get(n, False) or v
    dead_all = {n: all(oracles.structural_dead(d, ph)[n] for ph in phases) for n in dead_any}
    comps = d["comps"]
    used = set(q for c in comps for q in c["parents"])
    rails = {c.get("rail"): c["name"] for c in comps if c.get("rail")}
    used |= {rails[u] for u in list(used) if u in rails}
    leaves = [c for c in comps if c["kind"] not in ("source", "pmux") and c["name"] not in used and c.get("rail", "") not in used
              and len(c["parents"]) == 1 and dead_any.get(rails.get(c["parents"][0], c["parents"][0]))]
    if not leaves:
        return
    x = rng.choice(leaves)
    real = rails.get(x["parents"][0], x["parents"][0])
    hosts = [c["name"] for c in comps if c["kind"] not in ("pload", "iload", "rload") and c["name"] not in (x["name"], real)
             and not dead_all.get(c["name"])]
    if not hosts:
        return
    d["_build"] = {"moved": {"x": x["name"], "first_parent": rng.choice(hosts)}}


tablecheck.make(globals(), cols=["vin", "vout", "iin", "iout", "pwr", "loss"], textcols=["typ"], oracle=oracles.o_c04,
                gen_fn=gen_fn, nontrivial=lambda desc, obs: any(
                    any(oracles.structural_dead(desc, p["phase"]).values()) for p in obs["phases"]))
