"""C04 — a dead supply rail isolates everything below it."""
from .. import gen, oracles, tablecheck

CLAIM = True
MODULE = "SysLoss.Props.C04"
THEOREMS = ["SysLoss.C04." + t for t in (
    "dead_input", "dead_input_power", "dead_source", "mux_no_live", "priInpAux_none_of_all_zero", "sleep_current", "sleep_current_mux", "dead_child", "dead_chain")]
LEVEL_TEXT = ("Theorems (Lean 4, any ordered field): every non-source kind with a dead (0 V or flagged) supply outputs 0 V, draws 0 A and reports zero power and loss; a 0 V or phase-inactive Source and a PMux without live input likewise; a phase-inactive converter/regulator/switch/mux on a live supply draws exactly its sleep current; and in every steady state of a whole system each single-supply component below a node at 0 V is at 0 V / 0 A, hence (induction along the chain) everything below it. Tied to the code on every run: all cells of trees with planted dead elements re-assembled by the model from the implementation's (v,i) (1e-9), one more model sweep reproduces (v,i), and the oracle demands exact zeros below every structurally dead element.")
LEVEL_NOTE = ('The chain theorem covers single-supply components; the mux instance (all inputs dead) is `mux_no_live` + correspondence.')
RULE = ("random power trees with planted dead elements: 0 V sources, phase-inactive sources / converters / regulators / switches / "
        "muxes (component phase lists that omit phases), muxes without live input; non-trivial = at least one phase contains a dead "
        "element with something below or beside it")
ASSUMPTIONS = ["exact zeros are demanded (no tolerance): a dead branch is computed from literal 0.0 values"]


def gen_fn(rng):
    d = gen.gen_system(rng, phases=0.7, p_neg_src_rs=0.0, max_nodes=16)
    srcs = [c for c in d["comps"] if c["kind"] == "source"]
    if rng.random() < 0.35:
        rng.choice(srcs)["args"]["vo"] = 0.0
    if rng.random() < 0.15:
        for s in srcs:
            s["args"]["vo"] = 0.0
    return d


tablecheck.make(globals(), cols=["vin", "vout", "iin", "iout", "pwr", "loss"], textcols=["typ"], oracle=oracles.o_c04,
                gen_fn=gen_fn, nontrivial=lambda desc, obs: any(
                    any(oracles.structural_dead(desc, p["phase"]).values()) for p in obs["phases"]))
