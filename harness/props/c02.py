"""C02 — energy is conserved and losses / efficiency / temperature are accounted exactly."""
from .. import gen, oracles, tablecheck

CLAIM = True
MODULE = "SysLoss.Props.C02"
THEOREMS = ["SysLoss.C02." + t for t in (
    "eff_formula", "load_xor", "rise_lossload", "load_rise_full_fails", "pml_rloss", "pml_resid_switch",
    "pml_resid_linreg", "pml_resid_converter", "pml_resid_converter_noload", "pml_sleep", "pml_resid_mosfet",
    "pml_source", "pml_source_spec_partial", "source_balance_full_fails", "system_balance",
    "series_core", "pml_vloss", "pml_diode", "pml_switch_steady")] + [
    "SysLoss.sum_kids_exchange"]
LEVEL_TEXT = ("Theorems (Lean 4, any linearly ordered field, arbitrary row values): for every non-load kind the defect of "
              "Power-Loss = |Vout|*Iout is an explicit multiple of the row's deviation from its documented current law "
              "(hence zero in a steady state); 0 <= Loss <= Power and the efficiency formula within [0,100]; a load books its "
              "consumption as Power xor Loss; rise = rt*Loss, peak = ta+rise; and the whole-system balance (sources = loads + "
              "losses) for every forest whose rows are linked as C01 states, by a sum-exchange lemma over the feeder map. "
              "Tied to the code on every run: Power/Loss/Efficiency/rise/peak of every row are re-assembled by the model from the "
              "implementation's own (v,i) and must agree to 1e-9, and every clause is evaluated on the returned table. "
              "Partial: negative Source with series resistance (F01) and temperature rise of non-loss loads (F24) violate the "
              "property, are test-pinned, proved as counterexamples (…_full_fails) and reported as KNOWN-FINDING.")
LEVEL_NOTE = ("The link between the table assembler and the abstract forest of `system_balance` "
              "are covered by correspondence + oracle, not by a theorem.")
RULE = ("random power trees as for C01 plus ambient temperature ta in [-60,150], thermal resistances on ~50% of the components, "
        "phases on 30% of the systems; non-trivial = solved and >= 3 components")
ASSUMPTIONS = ["IEEE rounding outside the theorems; power-level tolerances derived from the solver's exit test"]


def gen_fn(rng):
    return gen.gen_system(rng, phases=0.3, p_rt=0.5, p_neg_src_rs=0.03)


def solve_kw(rng):
    kw = {"vtol": 1e-10, "itol": 1e-10} if rng.random() < 0.8 else {}
    kw["ta"] = float("%.3g" % rng.uniform(-60, 150))
    return kw


tablecheck.make(globals(), cols=["pwr", "loss", "eff", "tr", "tp"], textcols=["typ"], oracle=oracles.o_c02,
                gen_fn=gen_fn, solve_kw=solve_kw)
