"""C02 — energy is conserved and losses / efficiency / temperature are accounted exactly."""
from .. import gen, oracles, solved, tablecheck

CLAIM = True
MODULE = "SysLoss.Props.C02"
THEOREMS = ["SysLoss.C02." + t for t in (
    "eff_formula", "load_xor", "rise_lossload", "load_rise_full_fails", "pml_rloss", "pml_resid_switch",
    "pml_resid_linreg", "pml_resid_converter", "pml_resid_converter_noload", "pml_sleep", "pml_resid_mosfet",
    "pml_source", "pml_source_spec_partial", "source_balance_full_fails", "system_balance",
    "series_core", "pml_vloss", "pml_diode", "pml_switch_steady",
    # Props/C02Table: the rows assembled by the model's compRows in an exact steady state satisfy the balance
    "row_power_identity", "row_power_identity_wf", "row_power_identity_source_partial", "row_power_identity_mux",
    "local_fed", "local_source_partial", "local_mux", "compRow_domain_only", "compRows_numeric", "steady_currents_nonneg",
    "node_balance", "node_balance_mux", "table_balance_partial", "table_balance_mux_partial",
    "table_balance_of_nonneg_partial", "table_balance_mux_of_nonneg_partial", "table_balance_full_fails",
    "table_balance_full_f01_fails", "converter_vo0_breaks_identity",
    # Props/C02Conv: what solve() really returns - a tolerance-converged state: explicit defect bounds
    "row_power_defect_bound", "row_power_defect_bound_source_partial", "row_power_defect_bound_mux", "system_balance_resid",
    "table_balance_defect_bound_partial", "table_balance_defect_bound_mux_partial", "solvePhase_convAt",
    "solve_table_balance_defect_bound_partial", "linkM_eq_zero", "srcLink_bound", "dead_mux_current_bound", "share_split",
    "lawShift_eq_zero", "currVinFree_of_par", "converter_shift", "shiftW_converter_bound", "balance_defect_small",
    "balance_defect_small_conv", "table_balance_defect_bound_full_fails")] + [
    "SysLoss.sum_kids_exchange"]
MODULES = ["SysLoss.Props.C02", "SysLoss.Props.C02Table", "SysLoss.Props.C02Conv"]
LEVEL_TEXT = ("Theorems (Lean 4, any linearly ordered field, arbitrary row values): for every non-load kind the defect of "
              "Power-Loss = |Vout|*Iout is an explicit multiple of the row's deviation from its documented current law "
              "(hence zero in a steady state); 0 <= Loss <= Power and the efficiency formula within [0,100]; a load books its "
              "consumption as Power xor Loss; rise = rt*Loss, peak = ta+rise; and the whole-system balance (sources = loads + "
              "losses) for every forest whose rows are linked as C01 states, by a sum-exchange lemma over the feeder map. "
              "Tied to the code on every run: Power/Loss/Efficiency/rise/peak of every row are re-assembled by the model from the "
              "implementation's own (v,i) and must agree to 1e-9, and every clause is evaluated on the returned table. "
              "Props/C02Table closes the link to the model's own table: for every well-formed tree (with or without a PMux) in an exact "
              "steady state of the model's sweeps the rows assembled by compRows satisfy Power - Loss = |Vout|*Iout per row and "
              "sum(Source Power) = sum(Load Power + Loss) + sum(other Loss) over the table (`table_balance_partial`, "
              "`table_balance_mux_partial`; all steady currents are >= 0 by induction from the leaves). "
              "Partial: negative Source with series resistance (F01), temperature rise of non-loss loads (F24) and a Converter "
              "set to vo = 0 that still books its quiescent loss (F35, found by the proof attempt: `converter_vo0_breaks_identity`) "
              "violate the property, are test-pinned, proved as counterexamples (…_full_fails) and reported as KNOWN-FINDING.")
LEVEL_NOTE = ("Exact steady states: the balance holds exactly (Props/C02Table). What solve() really returns is a tolerance-converged state; for those "
              "Props/C02Conv bounds the defect of the per-row identity by rowTol = |Vin|*(atol+itol*|Iin|)/(1-itol) + |Iout|*(atol+vtol*|Vout|)/(1-vtol) (plus an explicit "
              "law-shift term for parameters tabulated over the supply voltage) and the defect of the whole-table balance by the sum of the row bounds and one link term "
              "per Source (`solve_table_balance_defect_bound_partial`; with atol = 0 and vtol = itol = eps: |defect| <= eps/(1-eps) * sum of row scales, "
              "`balance_defect_small`). The oracle's power-level tolerance `ptol` = 8*(atol*(v+i+1) + (vtol+itol)*v*i) dominates that bound (factor 8 for IEEE rounding and the law shift).")
RULE = ("random power trees as for C01 plus ambient temperature ta in [-60,150], thermal resistances on ~50% of the components, "
        "phases on 30% of the systems; non-trivial = solved and >= 3 components")
ASSUMPTIONS = ["IEEE rounding outside the theorems; power-level tolerances derived from the solver's exit test"]


def gen_fn(rng):
    d = gen.gen_system(rng, phases=0.3, p_rt=0.5, p_neg_src_rs=0.03)
    if rng.random() < 0.03:
        # dedicated stream for open finding F35: a Converter set to 0 V still books its quiescent loss
        cs = [c for c in d["comps"] if c["kind"] == "converter"]
        if cs:
            c = rng.choice(cs)
            c["args"]["vo"] = 0.0
            c["args"]["iq"] = abs(c["args"].get("iq", 0.0)) or 1e-3
    return d


def solve_kw(rng):
    kw = {"vtol": 1e-10, "itol": 1e-10} if rng.random() < 0.8 else {}
    kw["ta"] = float("%.3g" % rng.uniform(-60, 150))
    if rng.random() < 0.12:
        kw["ta"] = rng.choice([0.0, 0, -0.0, 25.0, 25])      # an explicit ambient of zero is an ambient like any other
    return kw


def tiny_probe(rng):
    """Source -> one element of every non-load kind with ALL its optional parameters set -> a load drawing between 1 nA and
    1 uA (or nothing at all): where `io == 0` versus `io < eps`, quiescent versus loaded branches and absolute cut-offs decide"""
    v = gen.sd(rng, 1.5, 24.0)
    if rng.random() < 0.25:
        v = -v
    kind = rng.choice(["converter", "linreg", "pswitch", "pmux", "rloss", "vloss", "rectifier", "rectifier"])
    a = abs(v)
    args = {"converter": {"vo": gen.sd(rng, 0.8, 12), "eff": gen.ud(rng, 0.6, 0.97), "iq": gen.sd(rng, 1e-6, 1e-4), "iis": gen.sd(rng, 1e-8, 1e-6)},
            "linreg": {"vo": gen.sd(rng, 0.3, 0.8 * a), "vdrop": gen.sd(rng, 0.01, 0.1 * a), "ig": gen.sd(rng, 1e-7, 1e-5), "iis": gen.sd(rng, 1e-8, 1e-6)},
            "pswitch": {"rs": gen.sd(rng, 1e-3, 5.0), "ig": gen.sd(rng, 1e-7, 1e-5), "iis": gen.sd(rng, 1e-8, 1e-6)},
            "pmux": {"rs": gen.sd(rng, 1e-3, 5.0), "ig": gen.sd(rng, 1e-7, 1e-5), "iis": gen.sd(rng, 1e-8, 1e-6)},
            "rloss": {"rs": gen.sd(rng, 1e-3, 50.0)},
            "vloss": {"vdrop": gen.sd(rng, 0.01, 0.3 * a)},
            "rectifier": ({"rs": gen.sd(rng, 1e-3, 1.0), "ig": gen.sd(rng, 1e-7, 1e-5), "iq": gen.sd(rng, 1e-6, 1e-4)} if rng.random() < 0.6
                          else {"vdrop": gen.sd(rng, 0.01, 0.2 * a)})}[kind]
    args["rt"] = gen.sd(rng, 1, 100)
    comps = [{"name": "S", "kind": "source", "args": {"vo": v, "rs": gen.sd(rng, 1e-3, 0.5) if v > 0 else 0.0}, "parents": []},
             {"name": "E", "kind": kind, "args": args, "parents": ["S"]}]
    r = rng.random()
    if r < 0.7:
        comps.append({"name": "L", "kind": "iload", "args": {"ii": float("%.3g" % (10 ** rng.uniform(-9, -6)))}, "parents": ["E"]})
    elif r < 0.85:
        comps.append({"name": "L", "kind": "iload", "args": {"ii": 0.0}, "parents": ["E"]})
    return {"name": "tiny", "comps": comps, "phases": {}}


tablecheck.make(globals(), cols=["pwr", "loss", "eff", "tr", "tp"], textcols=["typ"], oracle=oracles.o_c02,
                gen_fn=gen_fn, solve_kw=solve_kw)

_run_main = run  # noqa: F821


def run(ctx):
    _run_main(ctx)
    solved.run_cases(ctx, ctx.n(60, 1200), tiny_probe, per_case, solve_kw)       # noqa: F821
    ctx.stats["tiny_probe_stream"] += ctx.n(60, 1200)
