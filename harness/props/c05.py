"""C05 — a PMux feeds from exactly the first live input, and is reported so."""
from .. import gen, oracles, tablecheck

CLAIM = True
MODULE = "SysLoss.Props.C05"
THEOREMS = ["SysLoss.C05." + t for t in (
    "pri_first_live", "mux_core", "mux_volt", "mux_curr", "mux_dead", "mux_current_attribution", "single_parent_share", "mux_row_reports_selected")] + [
    # Props/C05System: the property end to end, on the cells of the table the model assembles for a whole well-formed system
    "SysLoss.C05S." + t for t in (
    "rowN_eq", "rowN_unique", "row_of_node", "cell_some", "liveRow_iff", "liveRow_iff_vout", "cell_iout_eq_ioOf", "selected_is_first_live",
    "input_iout", "mux_current_goes_to_selected", "mux_current_conserved", "no_live_input_all_zero", "depth_of_under",
    "no_live_input_descendants_zero", "no_live_reports_first_declared", "selection_monotone", "mux_row_power_identity")]
MODULES = ["SysLoss.Props.C05", "SysLoss.Props.C05System"]
LEVEL_TEXT = ("Theorems (Lean 4, any ordered field): the mux selects exactly the least input index that is unflagged and at non-zero voltage (none iff no input is live); its output is sign(V_k)(|V_k| - |rs_k| Iout) with rs_k the k-th list entry or the scalar and never inverts or amplifies V_k; its input current is Iout+ig (sleep current when inactive); that current counts towards the output current of the selected input only; the table row names the selected input as parent and shows its voltage. Tied to the code on every run over every live/dead pattern of 1-4 inputs (pattern histogram in the evidence) by certificate comparison of Vin/Vout/Iin/Iout/Parent/Rail in/Domain and by an oracle that recomputes the first live input from the inputs' own rows.")
LEVEL_TEXT = LEVEL_TEXT + (" Props/C05System states the property END TO END on the cells of the assembled table of any well-formed system (TreeWF, distinct names, one PMux - "
              "proved for every reachable system by C14Solver): the mux row names the FIRST live input (Vout cell non-zero, not flagged off) as Parent, its rail as Rail in and its Vout as Vin "
              "(`selected_is_first_live`, any state); in every exact steady state the selected input's Iout cell is the mux's Iin plus its other children's Iin and every other input's Iout is its "
              "other children only (`mux_current_goes_to_selected`, `mux_current_conserved`); with no live input the mux row and the row of EVERY descendant are all zero "
              "(`no_live_input_all_zero`, `no_live_input_descendants_zero`); `selection_monotone` (the next live input takes over), `mux_row_power_identity` (Power = |Vin Iin|, "
              "Loss = Power - |Vout Iout| >= 0). A three-phase five-component example is kernel-checked and agrees with /repo's solve().")
LEVEL_NOTE = ('Genuine defect found by this check and repaired: the mux row named the parent OF the selected input (fix dfd9166).')
RULE = ("muxes with 1-4 inputs on the same or different sources, inputs at depth 0-2, every live/dead pattern (0 V sources, "
        "phase-inactive sources or regulators upstream), scalar or per-input on-resistance; non-trivial = the system has a mux; "
        "the pattern histogram is in `distribution`")
ASSUMPTIONS = ["a mux input is 'live' iff its row reports a non-zero output voltage"]


def fallback_script(rng):
    """the unplugged-preferred-supply design in its smallest form, with the parts in every creation order: a dead source (0 V, or active
    only in some phase) listed first, the live supply reaching the mux through a regulator / converter / switch with default settings,
    constant-power or resistive loads behind the mux, and an indicator load directly on the dead source - created LAST, first, or in
    between (what the solver starts from must not depend on which component was created last)"""
    names = []
    dead_by_phase = rng.random() < 0.4
    s1 = {"name": "USB", "kind": "source", "args": {"vo": 0.0 if not dead_by_phase else gen.sd(rng, 4.5, 5.5)}, "parents": []}
    if dead_by_phase:
        names = ["plugged", "mobile"]
        s1["pconf"] = ["plugged"]
    s2 = {"name": "BAT", "kind": "source", "args": {"vo": gen.sd(rng, 6.0, 14.0)}, "parents": []}
    k = rng.choice(["linreg", "linreg", "converter", "pswitch"])
    a = {"linreg": {"vo": 5.0}, "converter": {"vo": 5.0, "eff": gen.ud(rng, 0.8, 0.95)}, "pswitch": {"rs": 0.05}}[k]
    reg = {"name": "REG", "kind": k, "args": a, "parents": ["BAT"]}
    mux = {"name": "MX", "kind": "pmux", "args": {"rs": [gen.sd(rng, 0.05, 0.3), gen.sd(rng, 0.05, 0.5)]}, "parents": ["USB", "REG"]}
    loads = []
    for j in range(rng.randint(1, 2)):
        if rng.random() < 0.6:
            loads.append({"name": "P%d" % j, "kind": "pload", "args": {"pwr": gen.sd(rng, 0.1, 2.0)}, "parents": ["MX"]})
        else:
            loads.append({"name": "R%d" % j, "kind": "rload", "args": {"rs": gen.sd(rng, 10, 500)}, "parents": ["MX"]})
    led = {"name": "LED", "kind": rng.choice(["pload", "rload", "iload"]), "parents": ["USB"]}
    led["args"] = {"pload": {"pwr": 0.02}, "rload": {"rs": 1000.0}, "iload": {"ii": 0.005}}[led["kind"]]
    rest = [reg, mux] + loads
    pos = rng.choice([len(rest), len(rest), 0, rng.randint(0, len(rest))])
    if pos < 2:
        pos = min(pos, 0)            # before the regulator, or after the mux exists: parents must exist when a component is added
    rest.insert(pos, led)
    desc = {"name": "mux", "comps": [s1, s2] + rest, "phases": ({p: gen.sd(rng, 1.0, 1e3) for p in names} if names else {})}
    if names:
        desc["_build"] = {"phase_order": "normal"}
    return desc


def gen_fn(rng):
    r0 = rng.random()
    if r0 < 0.1:
        return fallback_script(rng)
    if r0 < 0.2:
        return gen.mux_failover(rng)
    ns = rng.choice([1, 2, 2, 3, 4])
    comps = []
    for s in range(ns):
        vo = gen.sd(rng, 2.5, 24)
        if rng.random() < 0.2:
            vo = 0.0
        c = {"name": "S%d" % (s + 1), "kind": "source", "args": {"vo": vo}, "parents": []}
        if rng.random() < 0.4:
            c["args"]["rs"] = gen.sd(rng, 1e-3, 0.2)
        if rng.random() < 0.3:
            c["rail"] = "R_S%d" % (s + 1)
        comps.append(c)
    cands = [c["name"] for c in comps]
    # optional intermediate stages
    for j in range(rng.choice([0, 1, 2, 3])):
        par = rng.choice(cands)
        k = rng.choice(["linreg", "converter", "pswitch", "rloss"])
        if k == "linreg":
            a = {"vo": gen.sd(rng, 1.2, 2.4), "vdrop": 0.1}
            if rng.random() < 0.25:
                # brown-out: a regulator whose drop-out exceeds every supply of this generator (<= 24 V): powered, switched on, and at
                # exactly 0 V - as a mux input it is dead (not live), although nothing above it is off
                a = {"vo": gen.sd(rng, 31, 60), "vdrop": gen.sd(rng, 25, 30)}
        elif k == "converter":
            a = {"vo": gen.sd(rng, 1.5, 12), "eff": gen.ud(rng, 0.7, 0.95)}
        elif k == "pswitch":
            a = {"rs": gen.sd(rng, 1e-3, 0.1)}
        else:
            a = {"rs": gen.sd(rng, 1e-3, 0.1)}
        c = {"name": "N%d" % (j + 1), "kind": k, "args": a, "parents": [par]}
        if rng.random() < 0.4:
            c["rail"] = "R_N%d" % (j + 1)
        comps.append(c)
        cands.append(c["name"])
    nin = min(len(cands), rng.choice([1, 2, 2, 3, 4]))
    ins = rng.sample(cands, nin)
    margs = {}
    r = rng.random()
    if r < 0.4:
        margs["rs"] = [gen.sgn(rng, gen.sd(rng, 1e-3, 0.3), 0.2) for _ in ins]
    elif r < 0.8:
        margs["rs"] = gen.sd(rng, 1e-3, 0.3)
    if rng.random() < 0.5:
        margs["ig"] = gen.sd(rng, 1e-6, 1e-3)
    if rng.random() < 0.5:
        margs["iis"] = gen.sd(rng, 1e-7, 1e-5)
    mux = {"name": "MX", "kind": "pmux", "args": margs, "parents": ins}
    if nin == 1 and rng.random() < 0.5:
        mux["plist"] = True
    if rng.random() < 0.4:
        mux["rail"] = "R_MX"
    comps.append(mux)
    below = ["MX"]
    for j in range(rng.randint(1, 4)):
        par = rng.choice(below + cands[:1])
        k = rng.choice(["pload", "iload", "rload", "linreg"])
        if k == "pload":
            a = {"pwr": gen.sd(rng, 1e-3, 0.5)}
        elif k == "iload":
            a = {"ii": gen.sd(rng, 1e-4, 0.2)}
        elif k == "rload":
            a = {"rs": gen.sd(rng, 20, 1e4)}
        else:
            a = {"vo": gen.sd(rng, 0.8, 1.1)}
        c = {"name": "B%d" % (j + 1), "kind": k, "args": a, "parents": [par]}
        comps.append(c)
        if k == "linreg":
            below.append(c["name"])
    owner = {c["name"]: c for c in comps}
    for c in comps:
        c["parents"] = [owner[p]["rail"] if (owner[p].get("rail") and rng.random() < 0.4) else p for p in c["parents"]]
    desc = {"name": "mux", "comps": comps, "phases": {}}
    if rng.random() < 0.5:
        gen.add_phases(rng, desc, unknown=0.0)
    r = rng.random()
    if r < 0.2:
        gen.add_dupbridge(rng, desc)        # build histories that exercise the PMux input bookkeeping (re-link, de-duplication)
    elif r < 0.4:
        gen.add_bridge(rng, desc)
    return desc


tablecheck.make(globals(), cols=["vin", "vout", "iin", "iout"], textcols=["parent", "railIn", "domain", "typ"],
                oracle=oracles.o_c05, gen_fn=gen_fn, nontrivial=lambda desc, obs: True)
