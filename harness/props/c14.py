"""C14 — the tree stays well-formed under any sequence of edits."""
import json
from .. import hist as H, histgen as G

CLAIM = True
LEVEL_TEXT = ("Theorems (Lean 4) about an executable, statement-by-statement model of System.__init__/add_source/add_comp/"
              "change_comp/del_comp/set_sys_phases/set_comp_phases (rustworkx graph with index re-use and cycle check + the six "
              "registries): the freshly constructed system is well-formed; EVERY call, accepted or rejected and whatever its "
              "arguments, preserves well-formedness (names distinct, rail names distinct, names and rails disjoint, roots = "
              "Sources, loads childless, only a PMux has several inputs, at most one PMux, every link type-legal, registries "
              "keyed by exactly the live names, the recorded PMux inputs resolve to exactly its feeding components); hence every "
              "reachable state is well-formed. Full strength: no hypothesis on the calls (the nine call patterns for which the "
              "property was false - findings F16-F21, F32-F34 found by this check - are fixed in /repo and kept as regressions "
              "in Lean and in corpus/C14). The model is tied to the code by differential testing of random edit histories "
              "after every call.")
LEVEL_NOTE = ("Props/C14Solver carries the invariant to where it is used: for EVERY reachable system the solver's view is a well-formed tree in the sense the table "
              "theorems need (`reachable_structure`: parents/children converse, roots = Sources, one PMux, distinct names and rails, a valid topological order exists), "
              "hence in any exact steady state of any reachable system the energy balance, total / subsystem efficiency <= 100 and all-zero rows below a dead element hold "
              "(`reachable_table_balance_partial`, `reachable_total_eff_le_100_partial`, `reachable_dead_rows`; what stays assumed is about component PARAMETERS only). "
              "proved for all histories; rustworkx (index allocation, descendants, multigraph=False, check_cycle) is modelled, not "
              "verified; the tie between model and system.py is testing (correspondence after every call), not proof.")
MODULE = "SysLoss.Props.C14"
THEOREMS = [
    "SysLoss.C14.legal_init", "SysLoss.C14.legal_step", "SysLoss.C14.wf_init", "SysLoss.C14.wf_step",
    "SysLoss.C14.wf_reachable", "SysLoss.C14.wf_always", "SysLoss.C14.wf_nonvacuous",
    "SysLoss.C14.regression_F16", "SysLoss.C14.regression_F17", "SysLoss.C14.regression_F18",
    "SysLoss.C14.regression_F19", "SysLoss.C14.regression_F19_dup", "SysLoss.C14.regression_F20_F21",
    "SysLoss.C14.regression_F32", "SysLoss.C14.regression_F33_F34",
] + ["SysLoss.C14S." + t for t in (
    # Props/C14Solver: what well-formedness buys - the solver's view of EVERY reachable system satisfies the structural premises
    # of the table theorems of C02 / C04 / C07 (no Legal / WF hypothesis left)
    "parentsOf_length", "parents_perm_preds", "mkNode_parents_perm", "toSSys_treeWF", "toSSys_namesDistinct", "toSSys_srcNamesDistinct",
    "toSSys_oneMux", "toSSys_muxInputsPlain", "toSSys_childsOK", "childsOK_of_treeWF", "compsOK_of_payloads", "payloads_of_compsOK",
    "phaseValOK_of_confNonneg", "reachable_treeWF", "reachable_structure", "reachable_structure_exists", "reachable_table_balance_partial",
    "reachable_table_balance_of_payloads_partial", "reachable_total_loss_le_power_partial", "reachable_total_eff_le_100_partial",
    "reachable_subsystem_loss_le_power_partial", "reachable_subsystem_eff_le_100_partial", "reachable_dead_rows", "reachable_dead_rows_of_sweeps")]
MODULES = ["SysLoss.Props.C14", "SysLoss.Props.C14Solver"]
RULE = ("random edit histories of 5-60 calls (add_source/add_comp/change_comp/del_comp, a few phase settings) over 12 names and "
        "6 rail names drawn from the structure the previous calls left (collisions, re-use after deletion, unchanged-name "
        "replacement, parents by rail, renames/deletions of PMux inputs, both del_childs, ~35% crafted rejections); after EVERY "
        "call: outcome class and the structure reconstructed from params()/tree()/save() compared with the Lean model, and "
        "C14's clauses evaluated on the reconstruction; non-trivial = history with >= 3 accepted and >= 1 rejected edit; "
        "distinct by history")
ASSUMPTIONS = ["the structure is reconstructed from public reports only: params() (names, types, one distinguishing parameter), "
               "tree() text (all links), save() JSON (registries in insertion order, ordered PMux inputs) or the exception it raises",
               "`attrs['nodes']` and `attrs['pnames']` are not observable directly; they are checked through their effect on "
               "tree()/save() and on later calls"]
EXPLANATION = ("theorems: SysLoss.Props.C14 (WF preserved by every call; reachable states WF); correspondence: Lean `hist` run vs "
               "the real System after every call; oracle: C14's clauses on the reconstruction; corpus/C14: the minimal histories "
               "of the fixed findings F16-F21, F32, F33 run first on every run")

CLAUSE_PRIORITY = ["reports_raise", "names_distinct", "rails_distinct", "names_rails_disjoint", "registries_exact",
                   "roots_are_sources", "only_mux_multi_parent", "loads_childless", "links_accepted", "one_mux",
                   "inputs_resolve"]


def _hist_key(h):
    return json.dumps(h, sort_keys=True)


def first_wf_failure(run):
    """(step index, clause, detail) of the first step whose reconstruction is not well-formed (-1: constructor)"""
    if run.init_outcome != "ok":
        return None
    w = H.wf_oracle(run.st0)
    if w:
        return (-1, w[0][0], w[0][1])
    for k, s in enumerate(run.steps):
        if s["wf"]:
            return (k, s["wf"][0][0], s["wf"][0][1])
    return None


def shrink_oracle(hist, clause, kind):
    def fails(h):
        r = H.replay(h, stop_on_wf=True)
        f = first_wf_failure(r)
        if f is None or f[1] != clause:
            return False
        return (f[0] == -1 and kind == "System") or (f[0] >= 0 and r.steps[f[0]]["op"]["op"] == kind)
    return H.ddmin(hist, fails)


def report_oracle(ctx, run, stream):
    f = first_wf_failure(run)
    if f is None:
        return False
    k, clause, detail = f
    kind = "System" if k < 0 else run.steps[k]["op"]["op"]
    hist = {"init": run.init, "ops": run.ops[:k + 1]}
    small = shrink_oracle(hist, clause, kind)
    r2 = H.replay(small, stop_on_wf=True)
    f2 = first_wf_failure(r2)
    if f2 is None:          # shrinking lost it (cannot happen: ddmin only keeps failing candidates)
        small, r2, f2 = hist, run, f
    k2 = f2[0]
    trig = {"rail_equals_own_name": small["init"]["rail"] == small["init"]["comp"]["name"]} if k2 < 0 else \
        {a: b for a, b in r2.steps[k2]["facts"].items() if b}
    ctx.oracle({"history": small, "calls": H.short(small)}, clause, kind, trig,
               {"stream": stream, "failing_clause": clause, "detail": f2[2],
                "outcome_of_last_call": None if k2 < 0 else r2.steps[k2]["outcome"],
                "structure_after": {"components": r2.cur()["comps"], "links": r2.cur()["links"],
                                    "rails": r2.cur()["rails"], "save_exc": r2.cur()["save_exc"],
                                    "mux_inputs": r2.cur()["mux_parents"]}})
    ctx.stats["oracle:%s:%s" % (clause, kind)] += 1
    return True


def corr_fail(run, res):
    d = H.compare_run(run, res)
    if d:
        return d[0]
    if run.init_outcome == "ok":
        pairs = [(-1, res["state"], H.wf_oracle(run.st0))] + \
                [(k, ms["state"], s["wf"]) for k, (ms, s) in enumerate(zip(res["steps"], run.steps))]
        for k, ms, w in pairs:
            if bool(ms["wf"]) != bool(w):
                return (k, "WF verdict: Lean `WF (abs s)` on the model state vs the clauses evaluated on the reconstruction",
                        {"model_failing": ms["wf"], "oracle_failing": [c for c, _ in w]})
    return None


def check_history(ctx, run, stream):
    """correspondence + oracle for one executed history"""
    hist = run.history()
    res = H.model(ctx.drv, hist)
    ctx.traces += 1
    c = corr_fail(run, res)
    if c is not None:
        rel = c[1]

        def fails(h):
            r = H.replay(h)
            cc = corr_fail(r, H.model(ctx.drv, r.history()))
            return cc is not None and cc[1] == rel
        small = H.ddmin({"init": hist["init"], "ops": hist["ops"][:max(c[0], 0) + 1]}, fails)
        r2 = H.replay(small)
        c2 = corr_fail(r2, H.model(ctx.drv, small)) or c
        ctx.corr({"history": small, "calls": H.short(small)}, c2[1], {"step": c2[0], "stream": stream, **c2[2]})
    bad = report_oracle(ctx, run, stream)
    acc = sum(1 for s in run.steps if s["outcome"] == "ok")
    rej = len(run.steps) - acc
    ctx.case(key=_hist_key(hist), nontrivial=(acc >= 3 and rej >= 1),
             sample={"calls": H.short(hist)[:12], "outcomes": [s["outcome"] for s in run.steps][:11]})
    return bad


def gen_history(ctx, cfg, lo=5, hi=60, stream="main", stop=None):
    rng = ctx.rng
    run = H.Run(G.gen_init(rng, cfg))
    L = rng.randint(lo, hi)
    for k in range(L):
        op, intent = G.gen_op(rng, run.cur(), run.recorded, k + 1, cfg)
        s = run.apply(op)
        ctx.stats["%s:call:%s" % (stream, op["op"])] += 1
        ctx.stats["%s:outcome:%s" % (stream, s["outcome"])] += 1
        if intent != "valid":
            ctx.stats["%s:crafted:%s:%s" % (stream, intent, "rejected" if s["outcome"] != "ok" else "accepted")] += 1
        if H.unsafe_ids(op, s["facts"]):
            ctx.stats["%s:open-finding-trigger-calls" % stream] += 1
        if op["op"] in ("add_comp", "change_comp") and isinstance(op.get("parent", op.get("name")), str):
            pass
        if s["wf"] or s["st"]["save_exc"]:
            break               # the structure is broken: everything after it is tainted
    return run


def shape_stats(ctx, run, stream):
    st = run.cur()
    n = len(st["comps"])
    ctx.stats["%s:final-size:%s" % (stream, "<=3" if n <= 3 else "<=8" if n <= 8 else ">8")] += 1
    if any(c[1] == "PMUX" for c in st["comps"]):
        ctx.stats["%s:final-has-mux" % stream] += 1
    for s in run.steps:
        op = s["op"]
        if op["op"] == "add_comp" and s["outcome"] == "ok":
            par = op["parent"] if isinstance(op["parent"], list) else [op["parent"]]
            names = [c[0] for c in s["st"]["comps"]]
            if any(p not in names for p in par):
                ctx.stats["%s:parent-by-rail" % stream] += 1
        if op["op"] == "change_comp" and s["outcome"] == "ok":
            ctx.stats["%s:change:%s" % (stream, "same-name" if op["name"] == op["comp"]["name"] else "rename")] += 1
        if op["op"] == "del_comp" and s["outcome"] == "ok":
            ctx.stats["%s:del_childs=%s" % (stream, op["del_childs"])] += 1


FINDING_STREAMS = ["F16", "F17", "F17b", "F18", "F19", "F20", "F21", "F32"]


def trigger_history(ctx, fid, tries=40):
    """a safe random prefix followed by one call matching the trigger of finding `fid`"""
    rng = ctx.rng
    cfg = G.Cfg(p_reject=0.15, p_unsafe=0.0, p_mux=0.6 if fid in ("F18", "F19", "F32") else 0.15, w_phase=0.0)
    run = H.Run(G.gen_init(rng, cfg))
    warm = rng.randint(1, 10)
    for k in range(tries):
        if k >= warm:
            op = G.gen_trigger(rng, run.cur(), run.recorded, k + 1, fid)
            if op is not None:
                run.apply(op)
                return run
        op, _ = G.gen_op(rng, run.cur(), run.recorded, k + 1, cfg)
        s = run.apply(op)
        if s["wf"]:
            return run
    return run


def run_witnesses(ctx):
    from ..check import load_known
    for k in load_known():
        if k["property"] == ctx.prop and k.get("status") == "open" and "witness_hist" in k:
            run = H.replay(k["witness_hist"], stop_on_wf=True)
            ctx.stats["witness_runs"] += 1
            if not check_history(ctx, run, "witness:" + k["id"]):
                ctx.notes.append("witness of %s no longer fails" % k["id"])


def run_corpus(ctx):
    import glob, os
    from ..check import VERIF
    for f in sorted(glob.glob(os.path.join(VERIF, "corpus", ctx.prop, "*.json"))):
        h = json.load(open(f))["case"]["history"]
        r = H.replay(h, stop_on_wf=True)
        ctx.stats["corpus_runs"] += 1
        check_history(ctx, r, "corpus:" + os.path.basename(f))


def run(ctx):
    from .. import tables
    tables.compare(ctx, what=("childs",))            # _child_types / component types: model vs live objects
    run_corpus(ctx)
    run_witnesses(ctx)
    cfg = G.Cfg(p_reject=0.35, p_unsafe=1.0, w_phase=0.05, p_mux=0.3)
    for _ in range(ctx.n(380, 6000)):
        r = gen_history(ctx, cfg)
        shape_stats(ctx, r, "main")
        check_history(ctx, r, "main")
    calls = sum(v for k, v in ctx.stats.items() if k.startswith("main:call:"))
    trig = ctx.stats.get("main:open-finding-trigger-calls", 0)
    ctx.stats["main:open-finding-trigger-share-permille"] = int(1000 * trig / max(calls, 1))
    # a small dedicated stream per formerly failing call pattern (regression pressure on the fixed findings)
    for fid in FINDING_STREAMS:
        for _ in range(ctx.n(4, 60)):
            r = trigger_history(ctx, fid)
            ctx.stats["stream:%s:histories" % fid] += 1
            check_history(ctx, r, "finding:" + fid)
    # scripted family: a PMux whose inputs are related (ancestor / descendant, by rail or by name), then edits of the inputs
    for _ in range(ctx.n(70, 600)):
        r = H.Run(G.gen_init(ctx.rng, cfg))
        if r.init_outcome == "ok":
            G.mux_family(ctx.rng, r.apply)
            ctx.stats["stream:mux_family:histories"] += 1
            shape_stats(ctx, r, "mux_family")
            check_history(ctx, r, "mux_family")
    # F33: the constructor itself (now a ValueError on both sides)
    for _ in range(ctx.n(2, 10)):
        r = H.Run(G.gen_init(ctx.rng, unsafe=True))
        check_history(ctx, r, "finding:F33")


def search(ctx):
    cfg = G.Cfg(p_reject=0.3, p_unsafe=0.0, w_phase=0.1, p_mux=0.4, p_weird=0.05)
    for _ in range(ctx.n(150, 1500)):
        r = gen_history(ctx, cfg, stream="search")
        check_history(ctx, r, "search")


def replay(ctx, data):
    h = data["case"]["history"] if "history" in data.get("case", {}) else data["case"]
    r = H.replay(h, stop_on_wf=True)
    check_history(ctx, r, "replay")
