"""C13 — a component loaded from a TOML file equals the constructor call."""
import copy, itertools, json, os, shutil, tempfile

import toml

from .. import gen, sysdesc, wire
from ..sysdesc import KIND_CLASS, System, Source, ILoad

CLAIM = True
LEVEL_TEXT = ("Theorems (Lean 4) about the executable model of `_Component.from_file` / `LinReg.from_file` (Model/Toml.lean): "
              "on a file whose present keys all have an accepted type the loader returns exactly the constructor call on the "
              "file's parameters (schema defaults = constructor defaults, proved semantically through `mkComp`, not table against "
              "table); a missing mandatory key is KeyError, a wrongly typed value ValueError and never a component (generic "
              "loader); every constructor keyword is in the schema. The Lean schema tables are compared with the live `_cparams` "
              "and constructor signatures on every run, and the model's outcome (exception class or stored `_params` + applicable "
              "limits) with `Kind.from_file` on real TOML files.")
LEVEL_NOTE = ("The theorems are about the model; `toml.load`, the constructors' numeric behaviour and the solver are tied in by "
              "differential testing only (probe systems Source -> component -> load). Inline tables (finding F28, fixed in /repo b74ceae) "
              "are covered by a dedicated stream and a corpus witness.")
MODULE = "SysLoss.Props.C13"
THEOREMS = [
    "SysLoss.C13.toml_eq_ctor",
    "SysLoss.C13.toml_eq_ctor_filled",
    "SysLoss.C13.linreg_toml_eq_ctor",
    "SysLoss.C13.defaults_agree",
    "SysLoss.C13.ctor_default_semantic",
    "SysLoss.C13.defaults_well_typed",
    "SysLoss.C13.missing_mandatory",
    "SysLoss.C13.missing_table",
    "SysLoss.C13.wrong_type",
    "SysLoss.C13.bad_file_never_builds",
    "SysLoss.C13.schema_complete",
    "SysLoss.C13.mandatory_mismatch",
    "SysLoss.C13.inline_table_accepted",
    "SysLoss.C13.converter_int_eff_rejected",
    "SysLoss.C13.linreg_no_type_gate",
]
RULE = ("per kind (11): every subset of the optional keys x value forms (int / float / negative / list / 1-D and 2-D table as "
        "sub-table) x limits table present/absent; every key x every TOML type (int, float, bool, string, list, table) as a type "
        "confusion; every mandatory key removed; `[kind]` table removed; unknown extra keys; LinReg deprecated `iq` (scalar and table); "
        "inline tables (dedicated stream). Files are written with toml.dumps (inline stream: by hand) into a temporary directory and read "
        "back by Kind.from_file. Non-trivial = the file parsed and the loader was run; distinct by (kind, file text).")
ASSUMPTIONS = ["TOML text -> value (toml.load) is trusted; files the toml package itself refuses (mixed int/float arrays) are counted "
               "as not representable", "numeric equality of solve() cells of the two probe systems within 1e-9 relative"]
EXPLANATION = ("theorems: SysLoss.Props.C13 over Model/Toml.lean + Model/Ctor.lean; correspondence: schema tables vs live _cparams / "
               "inspect.signature, and per file the exception class or the saved `params`/`limits` block of a one-branch system vs the model; "
               "oracle: Kind.from_file vs Kind(name, **P, limits=L) on the implementation alone (params()/limits() rows, probe solve), "
               "KeyError for a missing mandatory key, ValueError for a wrongly typed value")

ALL_LIMS = ["vi", "vo", "vd", "ii", "io", "pi", "po", "pl", "tr", "tp"]
TYPES = ("int", "float", "bool", "str", "list", "dict")
# documented parameters of each kind: key -> (accepted TOML types, mandatory in the file).  Written from the
# docstrings / file-format documentation, independently of the Lean tables.
NUMT = ("int", "float")
DOC = {
    "source": {"vo": (NUMT, True), "rs": (NUMT, False)},
    "pload": {"pwr": (NUMT, True), "pwrs": (NUMT, False), "rt": (NUMT, False), "loss": (("bool",), False)},
    "iload": {"ii": (NUMT, True), "iis": (NUMT, False), "rt": (NUMT, False), "loss": (("bool",), False)},
    "rload": {"rs": (NUMT, True), "rt": (NUMT, False), "loss": (("bool",), False)},
    "rloss": {"rs": (NUMT, True), "rt": (NUMT, False)},
    "vloss": {"vdrop": (NUMT + ("dict",), True), "rt": (NUMT, False)},
    "converter": {"vo": (NUMT, True), "eff": (("float", "dict"), True), "iq": (NUMT, False), "iis": (NUMT, False),
                  "rt": (NUMT, False)},
    "linreg": {"vo": (NUMT, True), "vdrop": (NUMT, False), "iq": (NUMT + ("dict",), False), "ig": (NUMT + ("dict",), False),
               "iis": (NUMT, False), "rt": (NUMT, False)},
    "pswitch": {"rs": (NUMT, False), "ig": (NUMT + ("dict",), False), "iis": (NUMT, False), "rt": (NUMT, False)},
    "pmux": {"rs": (NUMT + ("list",), False), "ig": (NUMT + ("dict",), False), "iis": (NUMT, False), "rt": (NUMT, False)},
    "rectifier": {"vdrop": (NUMT + ("dict",), True), "rs": (NUMT + ("list",), False), "ig": (NUMT + ("dict",), False),
                  "iq": (NUMT, False), "rt": (NUMT, False)},
}
KINDS = list(DOC)


def exc_name(e):
    if e is None:
        return "ok"
    import builtins
    for c in type(e).__mro__:
        if getattr(builtins, c.__name__, None) is c:
            return c.__name__
    return type(e).__name__


def tyname(v):
    if isinstance(v, bool):
        return "bool"
    if isinstance(v, int):
        return "int"
    if isinstance(v, float):
        return "float"
    if isinstance(v, str):
        return "str"
    if isinstance(v, list):
        return "list"
    if isinstance(v, dict):
        return "dict"
    return type(v).__name__


# ---------------------------------------------------------------------------------------------------
# values

def table(rng, key, lo, hi, dims=None, ints=False):
    t = gen.mk_table(rng, key, lo, hi, 5.0, 0.3, dims=dims)
    t["io"] = [float(x) for x in t["io"]]
    t["vi"] = [float(x) for x in t["vi"]]
    return t


def good_value(rng, kind, key, form=None, dims=None):
    """a value of an accepted type and (mostly) accepted range"""
    types = DOC[kind][key][0]
    form = form or rng.choice(types)
    if form == "bool":
        return rng.random() < 0.5
    if form == "dict":
        if key == "eff":
            return table(rng, "eff", 0.5, 0.98, dims)
        if key == "vdrop":
            return table(rng, "vdrop", 0.05, 0.6, dims)
        return table(rng, "ig" if key != "iq" else "iq", 1e-6, 1e-3, dims)
    if form == "list":
        n = rng.randint(0, 3)
        if rng.random() < 0.5:
            return [rng.randint(0, 3) for _ in range(n)]
        return [gen.sgn(rng, gen.sd(rng, 1e-3, 1.0), 0.3) for _ in range(n)]
    rngs = {"vo": (0.8, 24), "eff": (0.5, 0.99), "pwr": (1e-3, 2), "ii": (1e-4, 0.5), "rs": (1e-3, 2.0),
            "vdrop": (0.05, 0.8), "rt": (1, 100), "iq": (1e-6, 1e-3), "ig": (1e-6, 1e-3), "iis": (1e-7, 1e-5),
            "pwrs": (1e-6, 1e-3)}
    lo, hi = rngs[key]
    if kind == "rload" and key == "rs":
        lo, hi = 10, 1e4
    if kind == "linreg" and key == "vdrop":
        lo, hi = 0.01, 0.5
    if form == "int":
        if key == "eff":
            return 1
        c = [0, 1, 2, 3, 5, 12]
        if key in ("vo", "pwr", "ii") or (kind in ("rload", "rloss") and key == "rs"):
            c = [1, 2, 3, 5, 12]
        v = rng.choice(c)
    else:
        v = gen.sd(rng, lo, hi)
        if rng.random() < 0.08 and key not in ("vo", "eff", "pwr", "ii") and not (kind in ("rload",) and key == "rs"):
            v = 0.0
        elif rng.random() < 0.1 and key in ("iq", "ig", "iis", "pwrs", "ii", "pwr"):
            v = float("%.3g" % (10 ** rng.uniform(-11, -7)))      # nano-power parts: a value is "given" however small it is
    if key != "eff" and rng.random() < 0.2:
        v = -v
    return v


def confusion(rng, kind, key, t):
    """a value of TOML type `t` for `key`, whatever the schema says"""
    if t in DOC[kind][key][0]:
        return good_value(rng, kind, key, t)
    if t == "int":
        return rng.choice([0, 1, 2])
    if t == "float":
        return gen.sd(rng, 0.1, 2.0)
    if t == "bool":
        return rng.random() < 0.5
    if t == "str":
        return rng.choice(["3.3", "", "abc", "0"])
    if t == "list":
        return rng.choice([[], [1.0], [0.1, 0.2]])
    return rng.choice([{}, {"vi": [3.3], "io": [0.1, 0.2], key: [[0.1, 0.2]]}])


def gen_limits(rng):
    lim = {}
    for k in rng.sample(ALL_LIMS, rng.randint(0, 4)):
        a = gen.sd(rng, 1e-3, 10)
        b = float("%.3g" % (a * rng.uniform(1.5, 50)))
        if rng.random() < 0.2:
            lim[k] = [rng.randint(0, 2), rng.randint(3, 50)]
        elif rng.random() < 0.12:
            lim[k] = [-a, -b]            # a window on a negative rail, written as it is meant: [smaller magnitude, larger magnitude]
        elif k == "tp":
            lim[k] = [gen.ud(rng, -40, 20), gen.ud(rng, 30, 150)]
        else:
            lim[k] = [a if rng.random() < 0.5 else 0.0, b]
    return lim


def base_params(rng, kind, optional=None):
    P = {}
    for key, (_, mandatory) in DOC[kind].items():
        if mandatory or (optional is not None and key in optional):
            P[key] = good_value(rng, kind, key)
    if kind == "linreg" and "iq" in P and optional is not None and rng.random() < 0.5:
        if isinstance(P["iq"], dict) and rng.random() < 0.3:
            P["iq"].pop("iq", None)                 # deprecated table without its data key: KeyError on both sides
    return P


# ---------------------------------------------------------------------------------------------------
# files

def inline_toml(v):
    if isinstance(v, bool):
        return "true" if v else "false"
    if isinstance(v, (int, float)):
        return repr(v)
    if isinstance(v, str):
        return json.dumps(v)
    if isinstance(v, list):
        return "[" + ", ".join(inline_toml(x) for x in v) + "]"
    return "{ " + ", ".join("%s = %s" % (k, inline_toml(x)) for k, x in v.items()) + " }"


def write_inline(kind, P, L):
    """hand-written TOML with every table-valued parameter as an inline table"""
    out = ["[%s]" % kind]
    for k, v in P.items():
        out.append("%s = %s" % (k, inline_toml(v)))
    if L is not None:
        out.append("[limits]")
        for k, v in L.items():
            out.append("%s = %s" % (k, inline_toml(v)))
    return "\n".join(out) + "\n"


def is_inline(v):
    return isinstance(v, dict) and type(v) is not dict


def config_wire(kind, parsed):
    """parsed TOML value -> wire PV (an inline table is an ordinary mapping for the repaired type gate)"""
    return wire.pv(plain(parsed))


def plain(v):
    if isinstance(v, dict):
        return {k: plain(x) for k, x in v.items()}
    if isinstance(v, list):
        return [plain(x) for x in v]
    return v


# ---------------------------------------------------------------------------------------------------
# observation through the public API

def host_system(kind, comp, vsrc=12.0):
    """one-branch system holding `comp` (Source -> comp -> load)"""
    if kind == "source":
        s = System("host", comp)
        s.add_comp(comp._params["name"], comp=ILoad("LD", ii=0.05))
        return s
    s = System("host", Source("SRC", vo=vsrc))
    if kind == "pmux":
        s.add_comp(["SRC"], comp=comp)
    else:
        s.add_comp("SRC", comp=comp)
    if kind not in sysdesc.LOADS:
        s.add_comp(comp._params["name"], comp=ILoad("LD", ii=0.05))
    return s


def _row(df, name):
    r = df[df["Component"] == name]
    if len(r) != 1:
        return None
    r = r.iloc[0]
    return {c: (r[c].item() if hasattr(r[c], "item") else r[c]) for c in df.columns}


def observe_comp(kind, comp, tmp, vsrc=12.0):
    """-> dict with the params()/limits() rows, the solve() rows of the probe system and the saved block"""
    name = comp._params["name"]
    s, e = sysdesc.quiet_call(host_system, kind, comp, vsrc)
    if e is not None:
        return {"host_error": exc_name(e)}
    out = {}
    p, e = sysdesc.quiet_call(s.params, limits=True)
    out["params"] = _row(p, name) if e is None else exc_name(e)
    p, e = sysdesc.quiet_call(s.limits)
    out["limits"] = _row(p, name) if e is None else exc_name(e)
    df, e = sysdesc.quiet_call(s.solve, vtol=1e-10, itol=1e-10)
    if e is not None:
        out["solve"] = sysdesc.exc_class(e)
    else:
        out["solve"] = {r["Component"]: {c: (r[c].item() if hasattr(r[c], "item") else r[c]) for c in df.columns}
                        for _, r in df.iterrows()}
    f = os.path.join(tmp, "host.json")
    _, e = sysdesc.quiet_call(s.save, f)
    if e is None:
        doc = json.load(open(f))
        if kind in ("source", "pmux"):
            blk = doc[name]
        else:
            blk = doc["SRC"]["childs"]["SRC"][0]
        out["block"] = {"type": blk["type"], "params": blk["params"], "limits": blk["limits"]}
    else:
        out["block"] = exc_name(e)
    return out


def same(a, b, rel=1e-9):
    """structural equality; numbers by value (int 1 == float 1.0), bool only equal to bool"""
    if isinstance(a, bool) or isinstance(b, bool):
        return isinstance(a, bool) and isinstance(b, bool) and a == b
    if isinstance(a, (int, float)) and isinstance(b, (int, float)):
        return a == b or abs(a - b) <= rel * max(abs(a), abs(b)) + 1e-15
    if isinstance(a, dict) and isinstance(b, dict):
        return list(a) == list(b) and all(same(a[k], b[k], rel) for k in a)
    if isinstance(a, list) and isinstance(b, list):
        return len(a) == len(b) and all(same(x, y, rel) for x, y in zip(a, b))
    return type(a) is type(b) and a == b


def first_diff(a, b, path=""):
    if isinstance(a, dict) and isinstance(b, dict):
        if list(a) != list(b):
            return path + ": keys %s vs %s" % (list(a), list(b))
        for k in a:
            d = first_diff(a[k], b[k], path + "/" + str(k))
            if d:
                return d
        return None
    return None if same(a, b) else "%s: %r vs %r" % (path, a, b)


# ---------------------------------------------------------------------------------------------------
# one case

def run_file(ctx, tmp, kind, text, tag, expect=None):
    """`expect`: None, or "KeyError" / "ValueError" demanded by the property for this file"""
    f = os.path.join(tmp, "c.toml")
    with open(f, "w") as fh:
        fh.write(text)
    case = {"kind": kind, "toml": text, "tag": tag, "expect": expect}
    try:
        parsed = toml.load(f)
    except Exception as e:  # the toml package refuses the file: not representable
        ctx.stats["unrepresentable:" + type(e).__name__] += 1
        ctx.case(nontrivial=False)
        return
    cls = KIND_CLASS[kind]
    comp, e = sysdesc.quiet_call(cls.from_file, "X", fname=f)
    impl = exc_name(e)
    ctx.stats["kind:" + kind] += 1
    ctx.stats["tag:" + tag] += 1
    ctx.stats["outcome:" + impl] += 1
    ctx.case(key=[kind, text], nontrivial=True, sample={"kind": kind, "toml": text, "from_file": impl})
    iobs = observe_comp(kind, comp, tmp) if comp is not None else None

    # --- correspondence: the model's loader on the parsed value
    m = ctx.drv.ask({"cmd": "toml", "op": "load", "carrier": "rat", "kind": kind, "name": "X",
                     "config": config_wire(kind, parsed)})
    ctx.traces += 1
    if "bad-op" in m:
        raise RuntimeError("driver: %r" % m)
    mcls = "ok" if "ok" in m else m["err"]["cls"]
    if mcls != impl:
        ctx.corr(case, "toml: outcome class of from_file", {"impl": impl, "model": mcls,
                                                             "detail": m.get("err", {}).get("detail")})
    elif impl == "ok" and isinstance(iobs.get("block"), dict):
        mb = {"type": m["ok"]["type"], "params": wire.unpv(m["ok"]["params"]), "limits": wire.unpv(m["ok"]["applims"])}
        d = first_diff(iobs["block"], mb)
        if d:
            ctx.corr(case, "toml: stored params / applicable limits of the loaded component", {"diff": d})

    # --- oracle: the property on the implementation alone
    tbl = parsed.get(kind)
    inline = isinstance(tbl, dict) and any(is_inline(v) for v in tbl.values())
    trig = {"inline_table": inline}
    if expect is not None:
        if impl != expect:
            ctx.oracle(case, "missing_mandatory" if expect == "KeyError" else "wrong_type", kind, trig,
                       {"expected": expect, "from_file": impl})
        return
    if not isinstance(tbl, dict):
        return
    P = {k: v for k, v in plain(tbl).items() if k in DOC[kind]}
    well_typed = all(tyname(v) in DOC[kind][k][0] for k, v in P.items())
    complete = all(k in P for k, (_, mandatory) in DOC[kind].items() if mandatory)
    if not (well_typed and complete):
        if kind != "linreg" and impl == "ok":
            ctx.oracle(case, "bad_file_builds", kind, trig, {"from_file": impl})
        return
    kw = copy.deepcopy(P)
    if "limits" in parsed:
        kw["limits"] = plain(parsed["limits"])
    ccomp, ce = sysdesc.quiet_call(cls, "X", **kw)
    cimpl = exc_name(ce)
    if (cimpl == "ok") != (impl == "ok"):
        ctx.oracle(case, "eq_ctor", kind, trig, {"from_file": impl, "constructor": cimpl, "P": P})
        return
    if impl != "ok":
        if cimpl != impl:       # both refuse the parameters, with different exception classes: noted, not a violation
            ctx.stats["both_refuse_class_differs:%s:%s/%s" % (kind, impl, cimpl)] += 1
            if len(ctx.notes) < 5:
                ctx.notes.append("both refuse, classes differ (%s from_file: %s, constructor: %s): %r" % (kind, impl, cimpl, P))
        return
    cobs = observe_comp(kind, ccomp, tmp)
    for part in ("params", "limits", "solve"):
        d = first_diff(cobs.get(part), iobs.get(part)) if isinstance(cobs.get(part), dict) and isinstance(iobs.get(part), dict) \
            else (None if cobs.get(part) == iobs.get(part) else "%r vs %r" % (cobs.get(part), iobs.get(part)))
        if d:
            ctx.oracle(case, "eq_ctor", kind, trig, {"report": part, "constructor_vs_from_file": d, "P": P})
            return


def dumps(kind, P, L):
    doc = {kind: P}
    if L is not None:
        doc["limits"] = L
    return toml.dumps(doc)


# ---------------------------------------------------------------------------------------------------
# schema correspondence

def check_schema(ctx):
    import inspect
    m = ctx.drv.ask({"cmd": "toml", "op": "schema"})
    pyt = {int: "int", float: "float", bool: "bool", str: "str", list: "list", dict: "dict"}
    for kind, cls in KIND_CLASS.items():
        mk = m[kind]
        case = {"kind": kind, "schema": True}
        ctx.case(key=["schema", kind], nontrivial=True)
        ctx.traces += 1
        sig = inspect.signature(cls.__init__)
        ctor = [[n, None if p.default is inspect._empty else repr(p.default)] for n, p in sig.parameters.items()
                if n not in ("self", "name", "limits")]
        if ctor != mk["ctor"]:
            ctx.corr(case, "schema: constructor keywords and defaults", {"impl": ctor, "model": mk["ctor"]})
        comp = None
        try:
            comp = cls("X", **{"source": {"vo": 1.0}, "pload": {"pwr": 1.0}, "iload": {"ii": 1.0}, "rload": {"rs": 1.0},
                               "rloss": {"rs": 1.0}, "vloss": {"vdrop": 1.0}, "converter": {"vo": 1.0, "eff": 0.9},
                               "linreg": {"vo": 1.0}}.get(kind, {}))
        except Exception:
            pass
        if comp is not None and list(comp._get_limits()) != mk["limits"]:
            ctx.corr(case, "schema: applicable limits", {"impl": list(comp._get_limits()), "model": mk["limits"]})
        generic = "from_file" not in cls.__dict__
        if generic != mk["generic"]:
            ctx.corr(case, "schema: which kinds use the generic loader", {"impl": generic, "model": mk["generic"]})
        if not generic:
            continue
        cp = cls._cparams
        live = [{"key": k, "opt": bool(v["opt"]), "typ": [pyt.get(t, str(t)) for t in v["typ"]],
                 "def": (repr(v["def"]) if v["opt"] else None)} for k, v in cp["params"].items()]
        model = [{"key": s["key"], "opt": s["opt"], "typ": s["typ"], "def": s["def"]} for s in mk["schema"]]
        if cp["name"] != kind or live != model:
            ctx.corr(case, "schema: _cparams table", {"impl": [cp["name"], live], "model": [kind, model]})


# ---------------------------------------------------------------------------------------------------

def known_witnesses(ctx, tmp):
    """witnesses of open findings (KNOWN-FINDING is printed only while they still fail) and the committed corpus
    (regression witnesses of repaired findings: a VIOLATION again if the defect returns)"""
    import glob
    from ..check import load_known, VERIF
    for k in load_known():
        if k["property"] == ctx.prop and k.get("status") == "open" and "witness_toml" in k:
            w = k["witness_toml"]
            ctx.stats["witness_runs"] += 1
            run_file(ctx, tmp, w["kind"], w["text"], "witness")
    for f in sorted(glob.glob(os.path.join(VERIF, "corpus", ctx.prop, "*.json"))):
        c = json.load(open(f))["case"]
        ctx.stats["corpus_runs"] += 1
        run_file(ctx, tmp, c["kind"], c["toml"], c.get("tag", "corpus"), c.get("expect"))


def subsets(keys):
    for r in range(len(keys) + 1):
        for c in itertools.combinations(keys, r):
            yield list(c)


def stream(ctx, tmp, rounds):
    rng = ctx.rng
    for rnd in range(rounds):
        for kind in KINDS:
            opt = [k for k, (_, mandatory) in DOC[kind].items() if not mandatory]
            man = [k for k, (_, mandatory) in DOC[kind].items() if mandatory]
            # every subset of the optional keys, random forms, limits present/absent
            for sub in subsets(opt):
                P = base_params(rng, kind, sub)
                keys = list(P)
                rng.shuffle(keys)
                P = {k: P[k] for k in keys}
                L = gen_limits(rng) if rng.random() < 0.5 else None
                run_file(ctx, tmp, kind, dumps(kind, P, L), "subset")
            # type confusions on each key
            for key in DOC[kind]:
                for t in TYPES:
                    P = base_params(rng, kind, [k for k in opt if rng.random() < 0.4])
                    P[key] = confusion(rng, kind, key, t)
                    bad = t not in DOC[kind][key][0]
                    expect = "ValueError" if (bad and kind != "linreg") else None
                    L = gen_limits(rng) if rng.random() < 0.3 else None
                    run_file(ctx, tmp, kind, dumps(kind, P, L), "type:" + t, expect)
            # missing mandatory keys
            for key in man:
                P = base_params(rng, kind, [k for k in opt if rng.random() < 0.5])
                del P[key]
                run_file(ctx, tmp, kind, dumps(kind, P, None), "missing", "KeyError")
            # two defects at once (which one wins is the model's business; the property only forbids a component)
            if man:
                P = base_params(rng, kind, opt)
                del P[rng.choice(man)]
                k2 = rng.choice(list(P)) if P else None
                if k2:
                    P[k2] = "oops"
                run_file(ctx, tmp, kind, dumps(kind, P, None), "missing+type")
            # no [kind] table; unknown keys; malformed limits
            P = base_params(rng, kind, opt)
            run_file(ctx, tmp, kind, toml.dumps({"other": P}), "no-table", "KeyError")
            P2 = dict(P)
            P2["bogus"] = 1.5
            run_file(ctx, tmp, kind, dumps(kind, P2, gen_limits(rng)), "extra-key")
            run_file(ctx, tmp, kind, dumps(kind, P, {"vi": rng.choice([[1.0], 5.0, [0.0, 1.0, 2.0], ["a", "b"]])}), "bad-limits")
        # inline tables (finding F28, fixed): a small dedicated stream
        for kind, key in (("vloss", "vdrop"), ("converter", "eff"), ("pswitch", "ig"), ("pmux", "ig"),
                          ("rectifier", "vdrop"), ("linreg", "ig"), ("linreg", "iq")):
            opt = [k for k, (_, mandatory) in DOC[kind].items() if not mandatory and k not in ("iq", "ig")]
            P = base_params(rng, kind, [k for k in opt if rng.random() < 0.5])
            P[key] = good_value(rng, kind, key, "dict", dims=1)   # the toml package cannot parse multi-row inline tables
            run_file(ctx, tmp, kind, write_inline(kind, P, gen_limits(rng) if rng.random() < 0.5 else None), "inline")


def run(ctx):
    tmp = tempfile.mkdtemp(prefix="c13-")
    try:
        check_schema(ctx)
        known_witnesses(ctx, tmp)
        stream(ctx, tmp, ctx.n(4, 60))
    finally:
        shutil.rmtree(tmp, ignore_errors=True)


def search(ctx):
    tmp = tempfile.mkdtemp(prefix="c13-")
    try:
        stream(ctx, tmp, ctx.n(2, 6))
    finally:
        shutil.rmtree(tmp, ignore_errors=True)


def replay(ctx, data):
    tmp = tempfile.mkdtemp(prefix="c13-")
    try:
        c = data["case"]
        if c.get("schema"):
            check_schema(ctx)
        else:
            run_file(ctx, tmp, c["kind"], c["toml"], c.get("tag", "replay"), c.get("expect"))
    finally:
        shutil.rmtree(tmp, ignore_errors=True)
