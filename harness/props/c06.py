"""C06 — load phases: each phase is solved with each component's phase behaviour."""
import copy
from .. import gen, oracles, solved, sysdesc

CLAIM = True
MODULE = "SysLoss.Props.C06"
THEOREMS = ["SysLoss.C06." + t for t in (
    "ctx_names", "ctx_table", "active_eq_nophase", "loadVal_spec", "load_phase_behaviour", "phaseList_unknown", "phaseList_known", "phaseList_all", "solve_single", "mapM_entries", "solve_all_entry",
    # Props/C06System: solving phase p = solving the behaviour system (every component replaced by what it does in p)
    "fwdAt_behave", "backAt_behave", "fwdProp_behave", "backProp_behave", "loop_behave", "converged_behave", "steady_behave", "init_behave",
    "init_behave_full_fails", "init_behave_partial", "solvePhase_behave_partial", "solvePhase_behave_full_fails",
    "compRow_behave_partial", "compRow_behave_wf", "compRow_behave_full_fails", "warn_sleeping_differs", "compRows_behave_partial",
    "phaseTable_behave_partial", "solvePhase_label", "behave_noconf", "phase_is_nophase_system")]
MODULES = ["SysLoss.Props.C06", "SysLoss.Props.C06System"]
LEVEL_TEXT = ("Theorems (Lean 4): what a phase configuration means (list: inactive iff non-empty and phase unlisted; table: listed value, else sleep value); a non-load component that is active in a phase obeys exactly its phase-free laws; a load in a phase obeys the phase-free laws of the same load carrying the phase / sleep value (an RLoad keeps its resistance); solve() lists the phases in declaration order, each table entry is assembled from that phase's own converged solution, solve(phase=p) returns exactly that entry, and an unknown phase is a ValueError. Inactive elements are C04. System level (Props/C06System): for ANY system and phase p, every cell of both sweeps, the whole iteration from a common start (`loop_behave`), the converged states and the exact steady states (`converged_behave`, `steady_behave`) of the system in phase p are those of the behaviour system in which every load carries its phase / sleep value and every active non-load its own laws with the configuration removed; the assembled rows agree in every numeric cell (`compRows_behave_partial`); when every component is a load or active in p the phase is literally a configuration-free system with the phase name as a label (`phase_is_nophase_system`). Stated exactly where it stops: the two runs start from different initial currents for an ILoad with a phase table (its initial guess ignores the table: `init_behave_full_fails`, same result, one more sweep) and a sleeping load's Warnings cell is empty by rule (`warn_sleeping_differs`). Tied to the code on every run: every cell of every (component, phase) against the model's certificate, and an oracle that rebuilds the per-phase behaviour system through the public constructors, solves it without phases and compares row by row; solve(phase=p) vs the all-phase rows; unknown phase.")
LEVEL_NOTE = ('Negative per-phase values are outside the generated stream (not normalised by set_comp_phases; DESIGN.md F25).')
RULE = ("random trees with 2-5 system phases (durations log-uniform 1e-3..1e5), every component given a phase configuration with "
        "probability 1/2 (lists: random subsets incl. empty and unknown names; load tables: random subsets of the phases); the oracle "
        "rebuilds, per phase, the 'behaviour system' through the public constructors (loads take their phase / sleep value, an inactive "
        "source becomes a 0 V source, an inactive converter/regulator/switch/mux becomes a sleep-current sink with its subtree on a dead "
        "rail) and solves it WITHOUT phases; non-trivial = some component has a non-empty phase configuration")
ASSUMPTIONS = ["phase values are non-negative (the property speaks of 'the value configured for the phase'; a negative per-phase power "
               "or resistance is not normalised by set_comp_phases and is outside the generated stream)"]
SLEEP = oracles.SLEEPERS
TOL = {"vtol": 1e-11, "itol": 1e-11}


def behaviour_system(desc, phase, rows, prune=False):
    """the phase-free system in which every component takes its behaviour for `phase`.
    prune: an active PMux keeps only its LIVE inputs (in order, with their rs entries) - a dead input takes no part in what a mux
    does (C05), so this is the same circuit; it is a second, independently built reference for phases in which the priority input
    of a mux is dead"""
    pars = oracles.declared_parents(desc)
    comps = []
    replaced = {}          # name of an inactive sleeper -> name of the dead source standing in for its output
    out = []
    for c in desc["comps"]:
        c2 = {"name": c["name"], "kind": c["kind"], "args": copy.deepcopy(c["args"]), "parents": list(pars[c["name"]]),
              "group": c.get("group", "")}
        if c.get("plist"):
            c2["plist"] = True
        pc = c.get("pconf")
        k = c["kind"]
        if k in oracles.LOADS and pc:
            if phase in pc:
                c2["args"][{"pload": "pwr", "iload": "ii", "rload": "rs"}[k]] = pc[phase]
            elif k == "pload":
                c2["args"]["pwr"] = c["args"].get("pwrs", 0.0)
            elif k == "iload":
                c2["args"]["ii"] = c["args"].get("iis", 0.0)
        elif k == "source" and pc and phase not in pc:
            c2["args"]["vo"] = 0.0
        elif k in SLEEP and pc and phase not in pc:
            ins = pars[c["name"]]
            live = [q for q in ins if rows[q]["vout"] != 0.0]
            feeder = live[0] if live else ins[0]
            c2 = {"name": c["name"], "kind": "iload", "args": {"ii": abs(c["args"].get("iis", 0.0)), "loss": True},
                  "parents": [feeder]}
            replaced[c["name"]] = "__dead_" + c["name"]
        if prune and k == "pmux" and not (pc and phase not in pc):
            ins = c2["parents"]
            keep = [j for j, q in enumerate(ins) if rows[q]["vout"] != 0.0]
            if keep and len(keep) < len(ins):
                c2["parents"] = [ins[j] for j in keep]
                if isinstance(c2["args"].get("rs"), list) and len(c2["args"]["rs"]) == len(ins):
                    c2["args"]["rs"] = [c2["args"]["rs"][j] for j in keep]
                c2["plist"] = True
        out.append(c2)
    extra = [{"name": d, "kind": "source", "args": {"vo": 0.0}, "parents": []} for d in replaced.values()]
    for c2 in out:
        c2["parents"] = [replaced.get(q, q) if c2["name"] not in replaced or True else q for q in c2["parents"]]
    # a replaced sleeper keeps its real feeder (the substitution above must not touch its own parent list)
    for c2 in out:
        if c2["name"] in replaced:
            ins = pars[c2["name"]]
            live = [q for q in ins if rows[q]["vout"] != 0.0]
            c2["parents"] = [live[0] if live else ins[0]]
            if c2["parents"][0] in replaced:       # fed from another sleeping element: dead rail
                c2["parents"] = [replaced[c2["parents"][0]]]
    srcs = [c2 for c2 in out if c2["kind"] == "source"]
    rest = [c2 for c2 in out if c2["kind"] != "source"]
    return {"name": "beh", "comps": srcs + extra + rest, "phases": {}}, replaced


def one(ctx, desc):
    sys_, df, err = solved.solve_case(desc, TOL)
    if err is not None:
        ctx.stats["outcome:%s:%s" % (err[0], sysdesc.exc_class(err[1]))] += 1
        ctx.case(nontrivial=False)
        return err[0] == "build"
    obs = sysdesc.observe(df)
    if not solved.rows_ok(ctx, desc, obs):
        ctx.case(nontrivial=False)
        return False
    solved.shape_stats(ctx, desc)
    configured = sum(1 for c in desc["comps"] if c.get("pconf"))
    ctx.case(key=solved.desc_key(desc), nontrivial=configured > 0,
             sample={"components": [(c["kind"], c["name"], c["parents"], c.get("pconf")) for c in desc["comps"]],
                     "phases": desc["phases"]})
    ctx.stats["configured_components"] += configured
    phs = list(desc["phases"].keys())
    # ---- correspondence: every numeric cell of every (component, phase)
    model = solved.cert(ctx.drv, desc, obs)
    ctx.traces += 1
    if not model.get("ok"):
        ctx.corr(desc, "constructor: the model rejects a component the implementation accepted", model)
        return False
    for m in solved.compare_tables(obs, model):
        ctx.corr(desc, "table-assembly: %s" % m["col"], m)
    solved.sweep_residuals(ctx, desc, obs, model, TOL["vtol"], TOL["itol"])
    # ---- oracle 1: phases listed in declaration order, each with every component
    if [p["phase"] for p in obs["phases"]] != phs:
        ctx.oracle(desc, "phase_order", "solve", {}, {"table": [p["phase"] for p in obs["phases"]], "declared": phs})
    names = [c["name"] for c in desc["comps"]]
    for p in obs["phases"]:
        if sorted(r["name"] for r in p["rows"]) != sorted(names):
            ctx.oracle(desc, "phase_lists_every_component", "solve", {}, {"phase": p["phase"]})
    # ---- oracle 2: solve(phase=p) == rows of phase p
    zero_dur = [p_ for p_ in phs if not desc["phases"][p_]]          # a phase of zero duration is always asked for on its own as well
    for ph in (phs if ctx.thorough() else list(dict.fromkeys([ctx.rng.choice(phs)] + zero_dur))):
        dfp, e = sysdesc.quiet_call(sys_.solve, phase=ph, **TOL, **(desc.get("_call") or {}))
        if e is not None:
            ctx.oracle(desc, "solve_phase_is_slice", "solve", {}, {"phase": ph, "exception": repr(e)})
            continue
        op = sysdesc.observe(dfp)
        want = [p for p in obs["phases"] if p["phase"] == ph][0]
        same = len(op["phases"]) == 1 and op["avg"] is None and op["phases"][0]["rows"] == want["rows"] and \
            op["phases"][0]["total"] == want["total"] and op["phases"][0]["subs"] == want["subs"]
        if not same:
            ctx.oracle(desc, "solve_phase_is_slice", "solve", {}, {"phase": ph, "single": op["phases"][0]["rows"][:3] if op["phases"] else None,
                                                                    "all": want["rows"][:3]})
    _, e = sysdesc.quiet_call(sys_.solve, phase="__nosuch__")
    if not isinstance(e, ValueError):
        ctx.oracle(desc, "unknown_phase_rejected", "solve", {}, {"exception": repr(e)})
    # ---- oracle 3: behaviour system per phase
    pars_ = oracles.declared_parents(desc)
    variants = []
    for p in obs["phases"]:
        rows = {r["name"]: r for r in p["rows"]}
        variants.append((p, False))
        for c in desc["comps"]:
            if c["kind"] == "pmux" and len(pars_[c["name"]]) > 1:
                lv = [rows[q]["vout"] != 0.0 for q in pars_[c["name"]]]
                if any(lv) and not all(lv):
                    variants.append((p, True))
                    ctx.stats["behaviour_systems_with_pruned_mux"] += 1
    for p, prune in variants:
        rows = {r["name"]: r for r in p["rows"]}
        beh, replaced = behaviour_system(desc, p["phase"], rows, prune=prune)
        s2, df2, err2 = solved.solve_case(beh, TOL)
        if err2 is not None:
            ctx.stats["behaviour_system_unsolved:%s" % sysdesc.exc_class(err2[1])] += 1
            continue
        ctx.stats["behaviour_systems_solved"] += 1
        r2 = {r["name"]: r for r in sysdesc.observe(df2)["phases"][0]["rows"]}
        for n, r in rows.items():
            if n in replaced:
                continue
            b = r2[n]
            for col in ("vin", "vout", "iin", "iout", "pwr", "loss"):
                # both solves stop at numpy's fixed atol = 1e-8 on every voltage and current
                t = oracles.ptol(r, TOL) if col in ("pwr", "loss") else 8 * solved.ATOL * (1 + abs(r[col]))
                if abs(r[col] - b[col]) > t + 1e-7 * max(abs(r[col]), abs(b[col])):
                    kind = [c["kind"] for c in desc["comps"] if c["name"] == n][0]
                    # finding F38 (C04): a sleeping stage whose sleep current is below numpy's atol can be left at its initial guess
                    # (0 A) by the tolerance exit - and a stage above it whose law switches on `io == 0` then differs by MORE than that
                    lim = 1e-8 * len(desc["comps"])
                    stuck = [c["name"] for c in desc["comps"] if c["kind"] in SLEEP and c.get("pconf") is not None
                             and p["phase"] not in c["pconf"] and 0.0 < abs(c["args"].get("iis", 0.0)) < lim
                             and rows[c["name"]]["iin"] == 0.0 and rows[c["name"]]["vin"] != 0.0]
                    ctx.oracle(desc, "phase_behaviour", kind, {"col": col, "sub_atol_sleep_current_stuck": bool(stuck)},
                               {"phase": p["phase"], "row": n, "col": col, "phase_table": r[col], "behaviour_system": b[col],
                                "pconf": [c.get("pconf") for c in desc["comps"] if c["name"] == n][0]})
                    break
    return False


def gen_fn(rng):
    if rng.random() < 0.15:
        return gen.zero_vs_omitted(rng)      # two phases that differ only in "explicit 0" vs "not listed" for one load
    d = gen.gen_system(rng, phases=1.0, max_nodes=12, p_neg_src_rs=0.0, p_mux=0.4, p_micro=0.2)
    if rng.random() < 0.12:
        d["_call"] = {"quiet": False}      # the progress display is switched on: printing is no part of the result
    for c in d["comps"]:
        if isinstance(c.get("pconf"), list) and rng.random() < 0.1:
            c["pconf"] = []
    return d


def run(ctx):
    n, skipped = ctx.n(90, 3000), 0
    for _ in range(n):
        skipped += bool(one(ctx, gen_fn(ctx.rng)))
    if skipped > 0.2 * n:
        raise RuntimeError("too many unbuildable cases")


def search(ctx):
    for _ in range(ctx.n(200, 2000)):
        one(ctx, gen_fn(ctx.rng))


def replay(ctx, data):
    one(ctx, data["case"])
