"""Static write-set scan of system.py / diagram.py for C17.

The Lean session model of Props/C17 says what an ANALYSIS method may write: only the caches `_parents`, `_childs`, `_topo_nodes`,
`_phase_lkup`, `attrs["hidx"]` (and, for batt_life, the battery's `vo`/`rs` which it restores).  DESIGN.md states this "by inspection of
every `self.x =`"; this module redoes that inspection mechanically on every run: it walks the AST of `System`, collects for every method
the attributes / registries it assigns, deletes or mutates in place (directly or through the `self.` methods it calls) and compares the
closure for each public analysis method with the set the model assumes.  A difference is reported as a correspondence failure (the model's
assumption about the code no longer holds), after which the dynamic before/after oracle of the check looks for a failing input.
Aliasing writes (mutating a dict obtained from a getter) are invisible to a static scan; those are the job of the dynamic snapshots."""
import ast, os

ANALYSES = ["solve", "rail_rep", "params", "limits", "phases", "tree", "save", "plot_interp", "batt_life", "get_sys_phases"]
ALLOWED = {"self._parents", "self._childs", "self._topo_nodes", "self._phase_lkup", 'attrs["hidx"]'}
ALLOWED_EXTRA = {"batt_life": {'node._params["vo"]', 'node._params["rs"]'}}
MUTATORS = {"append", "extend", "insert", "remove", "pop", "clear", "update", "setdefault", "sort", "reverse", "popitem",
            "add_node", "add_child", "add_edge", "remove_node", "remove_edge", "add_nodes_from", "add_edges_from"}


def _target(node):
    """canonical name of a store target rooted in `self`, or None"""
    if isinstance(node, ast.Attribute) and isinstance(node.value, ast.Name) and node.value.id == "self":
        return "self." + node.attr
    if isinstance(node, ast.Subscript):
        base = node.value
        # self._g.attrs["key"]...   (possibly nested subscripts)
        b = base
        while isinstance(b, ast.Subscript):
            b = b.value
        if isinstance(b, ast.Attribute) and b.attr == "attrs" and isinstance(b.value, ast.Attribute) and b.value.attr == "_g":
            # first-level key
            first = node
            while isinstance(first.value, ast.Subscript):
                first = first.value
            key = first.slice
            k = key.value if isinstance(key, ast.Constant) else "?"
            return 'attrs["%s"]' % k
        if isinstance(b, ast.Attribute) and b.attr == "_g" and isinstance(b.value, ast.Name) and b.value.id == "self":
            return "self._g[node]"
        # self._g[n]._params["vo"]
        if isinstance(base, ast.Attribute) and base.attr in ("_params", "_limits", "_ipr"):
            key = node.slice
            k = key.value if isinstance(key, ast.Constant) else "?"
            return 'node.%s["%s"]' % (base.attr, k)
        t = _target(base)
        return t
    if isinstance(node, ast.Attribute):
        if node.attr in ("_params", "_limits", "_ipr"):
            return "node." + node.attr
        return _target(node.value)
    return None


def scan(path):
    src = open(path).read()
    tree = ast.parse(src)
    cls = [n for n in tree.body if isinstance(n, ast.ClassDef) and n.name == "System"][0]
    writes, calls = {}, {}
    for f in cls.body:
        if not isinstance(f, ast.FunctionDef):
            continue
        w, c = set(), set()
        for n in ast.walk(f):
            tg = []
            if isinstance(n, ast.Assign):
                tg = n.targets
            elif isinstance(n, (ast.AugAssign, ast.AnnAssign)):
                tg = [n.target]
            elif isinstance(n, ast.Delete):
                tg = n.targets
            for t in tg:
                for e in (t.elts if isinstance(t, (ast.Tuple, ast.List)) else [t]):
                    if isinstance(e, (ast.List, ast.Tuple)):       # `del [x]`
                        for ee in e.elts:
                            r = _target(ee)
                            if r:
                                w.add(r)
                        continue
                    r = _target(e)
                    if r:
                        w.add(r)
            if isinstance(n, ast.Call) and isinstance(n.func, ast.Attribute):
                if isinstance(n.func.value, ast.Name) and n.func.value.id == "self":
                    c.add(n.func.attr)
                elif n.func.attr in MUTATORS:
                    r = _target(n.func.value)
                    if r and not r.startswith("self._g[node]") or (r and n.func.attr.startswith(("add_", "remove_"))):
                        w.add(r + "." + n.func.attr + "()")
                    elif isinstance(n.func.value, ast.Attribute) and n.func.value.attr == "_g" and n.func.attr.startswith(("add_", "remove_")):
                        w.add("self._g." + n.func.attr + "()")
        writes[f.name], calls[f.name] = w, c
    return writes, calls


def closure(writes, calls, m):
    seen, todo, out = set(), [m], set()
    while todo:
        x = todo.pop()
        if x in seen or x not in writes:
            continue
        seen.add(x)
        out |= writes[x]
        todo += list(calls[x])
    return out


def compare(ctx, path=None):
    import sysloss.system as S
    path = path or S.__file__
    writes, calls = scan(path)
    for m in ANALYSES:
        if m not in writes:
            continue
        got = closure(writes, calls, m)
        extra = sorted(x for x in got if x not in ALLOWED and x not in ALLOWED_EXTRA.get(m, set()))
        if extra:
            ctx.corr({"method": m}, "write-set of an analysis method (static scan of system.py)",
                     {"method": m, "writes_outside_the_model": extra, "model_allows": sorted(ALLOWED | ALLOWED_EXTRA.get(m, set()))})
        ctx.stats["writeset_scanned"] += 1


if __name__ == "__main__":
    import sysloss.system as S, json
    w, c = scan(S.__file__)
    for m in ANALYSES:
        print(m, sorted(closure(w, c, m)))
