"""Line coverage of /repo's sysloss package during a check run (generator-quality measurement, not a verdict).

Enabled by VERIF_COVERAGE=<out.json>.  Uses sys.monitoring (Python 3.12): every LINE location reports once and is
then disabled, so the overhead is negligible.  tools/covreport.py merges the files of several checks and lists the
executable lines of sysloss no correspondence run ever reached."""
import atexit, json, os, sys

_hits = {}


def start(out):
    mon = getattr(sys, "monitoring", None)
    if mon is None:
        return
    tool = mon.COVERAGE_ID
    try:
        mon.use_tool_id(tool, "verif-cov")
    except ValueError:
        return

    def on_line(code, line):
        fn = code.co_filename
        if "sysloss" in fn and fn.endswith(".py") and "/harness/" not in fn:
            _hits.setdefault(fn, set()).add(line)
        return mon.DISABLE

    mon.register_callback(tool, mon.events.LINE, on_line)
    mon.set_events(tool, mon.events.LINE)

    def dump():
        try:
            with open(out, "w") as f:
                json.dump({k: sorted(v) for k, v in _hits.items()}, f)
        except OSError:
            pass
    atexit.register(dump)


def maybe_start():
    out = os.environ.get("VERIF_COVERAGE")
    if out:
        start(out)
