"""Type-directed generator of constructor calls for C11 (and well-conditioned tables for C10), and the property's
rejection table as a predicate over the raw arguments.  All randomness from the `rng` passed in."""
import copy, math

from .gen import sd, ud

KINDS = ["source", "pload", "iload", "rload", "rloss", "vloss", "converter", "linreg", "pswitch", "pmux", "rectifier"]
LIMIT_KEYS = ["vi", "vo", "vd", "ii", "io", "pi", "po", "pl", "tr", "tp"]
# magnitude-type scalar arguments per kind (the property: "treated as magnitudes")
MAGS = {"source": ["rs"], "pload": ["pwr", "pwrs", "rt"], "iload": ["ii", "iis", "rt"], "rload": ["rs", "rt"],
        "rloss": ["rs", "rt"], "vloss": ["vdrop", "rt"], "converter": ["iq", "iis", "rt"],
        "linreg": ["vdrop", "iq", "ig", "iis", "rt"], "pswitch": ["rs", "ig", "iis", "rt"],
        "pmux": ["rs", "ig", "iis", "rt"], "rectifier": ["vdrop", "rs", "ig", "iq", "rt"]}
# fields the constructors store normalised (abs applied to the stored value itself)
STORED_MAG = ["rs", "rt", "iq", "iis", "pwr", "pwrs", "ii", "vdrop"]
# (kind, argument) pairs that accept a table, with the value key
TABLES = {("vloss", "vdrop"): "vdrop", ("converter", "eff"): "eff", ("linreg", "ig"): "ig", ("linreg", "iq"): "iq",
          ("pswitch", "ig"): "ig", ("pmux", "ig"): "ig", ("rectifier", "vdrop"): "vdrop", ("rectifier", "ig"): "ig"}


def isnum(x):
    return isinstance(x, (int, float))


def signed(rng, x, p=0.4):
    return -x if rng.random() < p else x


def shape_num(rng, x):
    """int form now and then"""
    if abs(x) >= 1 and rng.random() < 0.25:
        return int(round(x))
    return x


def mag(rng, lo, hi, p_neg=0.4):
    return signed(rng, shape_num(rng, sd(rng, lo, hi)), p_neg)


# ---------------------------------------------------------------------------------------------------
# tables

def gen_axis(rng, n, lo, hi):
    """n strictly increasing non-negative coordinates, steps >= 1e-4 of the largest coordinate"""
    top = sd(rng, lo, hi)
    while True:
        cuts = sorted(rng.uniform(0.0, 1.0) for _ in range(n))
        if rng.random() < 0.3:
            cuts[0] = 0.0
        xs = [float("%.4g" % (c * top)) for c in cuts]
        if all(b - a >= 1e-3 * max(xs) for a, b in zip(xs, xs[1:])) and max(xs) > 0:
            return xs


def gen_table(rng, z, lo, hi, *, nvi=None, nio=None, vmax=30.0, imax=2.0, shuffle=0.2, const=None, min_step=1e-3):
    """well-conditioned table (the conditioning of property C10)"""
    nvi = nvi if nvi is not None else rng.choice([1, 1, 2, 2, 3, 4, 5, 6])
    nio = nio if nio is not None else rng.randint(2, 8)
    ios = gen_axis(rng, nio, 0.2 * imax, imax)
    if nvi == 1:
        vis = [sd(rng, 1.0, vmax)]
    else:
        vis = gen_axis(rng, nvi, 0.3 * vmax, vmax)
        if vis[0] == 0.0:
            vis[0] = float("%.4g" % (0.5 * vis[1]))
    top = max(max(ios), max(vis)) if nvi > 1 else max(ios)
    if any(b - a < min_step * top for ax in ((ios, vis) if nvi > 1 else (ios,)) for a, b in zip(ax, ax[1:])):
        # conditioning: axis steps relative to the largest coordinate of the whole table (the property allows 1e-4; steps
        # between 1e-4 and 1e-3 are the business of a dedicated stream, see c10.gen_fine)
        return gen_table(rng, z, lo, hi, nvi=nvi, nio=nio, vmax=vmax, imax=imax, shuffle=shuffle, const=const,
                         min_step=min_step)
    vals = [[(const if const is not None else ud(rng, lo, hi, 4)) for _ in ios] for _ in vis]
    if nvi > 1 and rng.random() < shuffle:
        order = list(range(nvi))
        rng.shuffle(order)
        vis = [vis[r] for r in order]
        vals = [vals[r] for r in order]
    return {"vi": vis, "io": ios, z: vals}


def small_table(rng, z, lo, hi, neg_vals=False):
    """small valid table for constructor calls (1-D or 2-D), optionally with negative value entries / vi entries"""
    t = gen_table(rng, z, lo, hi, nvi=rng.choice([1, 1, 2, 3]), nio=rng.randint(2, 4), vmax=20.0, imax=1.0)
    if neg_vals:
        t[z] = [[signed(rng, v, 0.3) for v in row] for row in t[z]]
    elif z == "ig" and rng.random() < 0.15:
        r_, c_ = rng.randrange(len(t[z])), rng.randrange(len(t[z][0]))
        t[z][r_][c_] = rng.choice([0.0, 0])       # no ground current at one operating point: zero is not negative
    if rng.random() < 0.3:
        t["vi"] = [signed(rng, v, 0.4) for v in t["vi"]]
    if rng.random() < 0.2:
        t["io"] = [int(v) if (v == int(v) and rng.random() < 0.5) else v for v in t["io"]]
    if rng.random() < 0.1 and 0 < t["io"][0] < t["io"][1]:
        t["io"][0] = -t["io"][0]               # still increasing, as given and in magnitude
    return t


def gen_limits(rng):
    lim = {}
    for k in rng.sample(LIMIT_KEYS, rng.randint(1, 4)):
        a = sd(rng, 1e-3, 10)
        b = float("%.3g" % (a * rng.uniform(1.5, 50)))
        if k == "tp":
            lim[k] = [ud(rng, -40, 20), ud(rng, 30, 150)]
        else:
            lim[k] = [shape_num(rng, a) if rng.random() < 0.5 else 0, shape_num(rng, b)]
    if rng.random() < 0.25:
        lim["zz"] = "ignored"          # keys outside LIMITS_DEFAULT are never looked at ...
        items = list(lim.items())
        rng.shuffle(items)             # ... wherever they stand in the dict (its order must not matter)
        lim = dict(items)
    return lim


# ---------------------------------------------------------------------------------------------------
# valid constructor calls: random signs on every magnitude-type argument, scalar / list / table forms

def gen_valid(rng, kind, p_table=0.35):
    a = {}
    opt = lambda p=0.5: rng.random() < p  # noqa
    if kind == "source":
        a["vo"] = signed(rng, shape_num(rng, sd(rng, 1.5, 48)), 0.3)
        if opt(0.7):
            a["rs"] = mag(rng, 1e-3, 2.0)
    elif kind == "pload":
        a["pwr"] = mag(rng, 1e-3, 5.0)
        if opt():
            a["pwrs"] = mag(rng, 1e-6, 1e-2)
    elif kind == "iload":
        a["ii"] = mag(rng, 1e-4, 2.0)
        if opt():
            a["iis"] = mag(rng, 1e-7, 1e-3)
    elif kind == "rload":
        a["rs"] = mag(rng, 0.5, 1e4)
    elif kind == "rloss":
        a["rs"] = mag(rng, 1e-3, 5.0)
    elif kind == "vloss":
        a["vdrop"] = small_table(rng, "vdrop", 0.05, 1.5, neg_vals=True) if opt(p_table) else mag(rng, 0.01, 1.5)
    elif kind == "converter":
        a["vo"] = signed(rng, shape_num(rng, sd(rng, 0.8, 24)), 0.3)
        if opt(p_table):
            a["eff"] = small_table(rng, "eff", 0.3, 1.0)
        else:
            a["eff"] = rng.choice([ud(rng, 0.05, 1.0, 4), ud(rng, 0.5, 0.99, 3), 1.0, 1, True])
        if opt():
            a["iq"] = mag(rng, 1e-6, 1e-2)
        if opt(0.3):
            a["iis"] = mag(rng, 1e-7, 1e-4)
    elif kind == "linreg":
        a["vo"] = signed(rng, shape_num(rng, sd(rng, 0.8, 24)), 0.3)
        if opt(0.6):
            a["vdrop"] = signed(rng, float("%.3g" % (abs(a["vo"]) * rng.uniform(0.01, 0.95))), 0.4)
        r = rng.random()
        if r < 0.15:                      # deprecated spelling
            a["iq"] = small_table(rng, "iq", 1e-5, 1e-2) if opt(p_table) else mag(rng, 1e-6, 1e-2)
        elif r < 0.75:
            a["ig"] = small_table(rng, "ig", 1e-5, 1e-2) if opt(p_table) else mag(rng, 1e-6, 1e-2)
        if opt(0.3):
            a["iis"] = mag(rng, 1e-7, 1e-4)
    elif kind in ("pswitch", "pmux"):
        if opt(0.8):
            if kind == "pmux" and opt(0.35):
                a["rs"] = [mag(rng, 1e-3, 2.0) for _ in range(rng.randint(1, 3))]
            else:
                a["rs"] = mag(rng, 1e-3, 2.0, p_neg=(0.08 if kind == "pmux" else 0.4))
        if opt(0.7):
            a["ig"] = small_table(rng, "ig", 1e-5, 1e-2) if opt(p_table) else mag(rng, 1e-6, 1e-2)
        if opt(0.3):
            a["iis"] = mag(rng, 1e-7, 1e-4)
    elif kind == "rectifier":
        if opt(0.45):
            a["vdrop"] = small_table(rng, "vdrop", 0.05, 1.0, neg_vals=True) if opt(p_table) else mag(rng, 0.05, 1.0)
            if opt(0.2):
                a["rs"] = mag(rng, 1e-3, 1.0)          # ignored in diode mode
        else:
            if opt(0.1):
                a["vdrop"] = rng.choice([0, 0.0, -0.0])
            if opt(0.8):
                if opt(0.12):
                    a["rs"] = [mag(rng, 1e-3, 1.0) for _ in range(rng.randint(1, 3))]
                else:
                    a["rs"] = mag(rng, 1e-3, 1.0, p_neg=0.08)
            if opt(0.6):
                a["ig"] = small_table(rng, "ig", 1e-5, 1e-2) if opt(p_table) else mag(rng, 1e-6, 1e-2)
            if opt(0.4):
                a["iq"] = mag(rng, 1e-6, 1e-3)
    if kind != "source" and opt(0.4):
        a["rt"] = mag(rng, 0.5, 150)
    if kind in ("pload", "iload", "rload") and opt(0.3):
        a["loss"] = rng.choice([True, False, True, 1, 0])
    if opt(0.25):
        a["limits"] = gen_limits(rng)
    return a


# ---------------------------------------------------------------------------------------------------
# malformed calls: one rejection cause of the property injected into a valid call

def table_args(kind, a):
    """[(argument, value key)] of the tables the constructor looks at (mode-dependent arguments excluded)"""
    out = []
    for (k, arg), z in TABLES.items():
        if k != kind or not isinstance(a.get(arg), dict):
            continue
        if kind == "linreg" and arg == "ig" and not (isnum(a.get("iq", 0.0)) and a.get("iq", 0.0) == 0.0):
            continue                  # `iq` (deprecated) given: `ig` is ignored
        if kind == "rectifier":
            diode = not (isnum(a.get("vdrop", 0.0)) and a.get("vdrop", 0.0) == 0.0)
            if (arg == "ig") == diode:
                continue
        out.append((arg, z))
    return out


def ensure_table(rng, kind, a):
    """make sure the call carries a table; returns (argument, value key)"""
    have = table_args(kind, a)
    if have:
        return rng.choice(have)
    choices = [(arg, z) for (k, arg), z in TABLES.items() if k == kind]
    arg, z = rng.choice(choices)
    if kind == "linreg":
        a.pop("iq", None), a.pop("ig", None)
    if kind == "rectifier":
        if arg == "vdrop":
            for k in ("rs", "ig", "iq"):
                a.pop(k, None)
        else:
            a.pop("vdrop", None)
    lo, hi = {"eff": (0.3, 1.0), "vdrop": (0.05, 1.0)}.get(z, (1e-5, 1e-2))
    a[arg] = small_table(rng, z, lo, hi)
    return arg, z


CAUSES = {
    "eff_const_range": ["converter"], "eff_table_range": ["converter"], "linreg_dropout": ["linreg"],
    "rload_zero": ["rload"], "table_missing_key": ["vloss", "converter", "linreg", "pswitch", "pmux", "rectifier"],
    "io_not_increasing": ["vloss", "converter", "linreg", "pswitch", "pmux", "rectifier"],
    "shape_mismatch": ["vloss", "converter", "linreg", "pswitch", "pmux", "rectifier"],
    "ig_table_negative": ["linreg", "pswitch", "pmux", "rectifier"],
    "limits_malformed": KINDS, "rs_list_non_numeric": ["pmux", "rectifier"],
}


def gen_malformed(rng, kind, cause=None):
    """-> (args, cause)"""
    a = gen_valid(rng, kind)
    if cause is None:
        cause = rng.choice([c for c, ks in CAUSES.items() if kind in ks])
    if cause == "eff_const_range":
        a["eff"] = rng.choice([0, 0.0, -0.0, -ud(rng, 0.01, 1.0), float("%.7g" % (1.0 + sd(rng, 1e-6, 5))), 2, -1, False])
    elif cause == "eff_table_range":
        a["eff"] = small_table(rng, "eff", 0.3, 1.0)
        r, k = rng.randrange(len(a["eff"]["vi"])), rng.randrange(len(a["eff"]["io"]))
        a["eff"]["eff"][r][k] = rng.choice([0.0, 0, -ud(rng, 0.01, 1.0), float("%.7g" % (1.0 + sd(rng, 1e-6, 5))), 2])
    elif cause == "linreg_dropout":
        vo = a["vo"] if rng.random() < 0.85 else 0
        a["vo"] = vo
        m = abs(vo) if rng.random() < 0.4 else abs(vo) * rng.uniform(1.0, 3.0) + (0 if vo else rng.choice([0, 0.5]))
        a["vdrop"] = signed(rng, m, 0.5)
    elif cause == "rload_zero":
        a["rs"] = rng.choice([0, 0.0, -0.0, False])
    elif cause in ("table_missing_key", "io_not_increasing", "shape_mismatch", "ig_table_negative"):
        if cause == "ig_table_negative":
            if kind == "rectifier":
                a.pop("vdrop", None)
            if kind == "linreg" and rng.random() < 0.8:
                a.pop("iq", None)
            arg = "iq" if (kind == "linreg" and "iq" in a) else "ig"
            z = arg
            a[arg] = small_table(rng, z, 1e-5, 1e-2)
        else:
            arg, z = ensure_table(rng, kind, a)
        t = a[arg]
        if cause == "table_missing_key":
            del t[rng.choice(["vi", "io", z])]
        elif cause == "io_not_increasing":
            k = rng.randrange(len(t["io"]) - 1)
            r = rng.random()
            if r < 0.4:
                t["io"][k + 1] = t["io"][k]
            elif r < 0.8:
                t["io"][k], t["io"][k + 1] = t["io"][k + 1], t["io"][k]
            else:                               # increasing as given, not in magnitude (former finding F11)
                t["io"] = sorted(-abs(x) - (0.01 if x == 0 else 0.0) for x in t["io"])
        elif cause == "shape_mismatch":
            r = rng.random()
            nv, ni = len(t["vi"]), len(t["io"])
            if rng.random() < 0.3 and nv != ni and nv * ni > 1:
                # the RIGHT NUMBER of values in the wrong shape: transposed, or everything in one row
                flat = [x for row in t[z] for x in row]
                if rng.random() < 0.5 and nv > 1:
                    t[z] = [flat]
                else:
                    t[z] = [flat[k * nv:(k + 1) * nv] for k in range(ni)]
            elif r < 0.3:
                t["vi"] = t["vi"] + [t["vi"][-1] + 1.0]
            elif r < 0.5 and len(t["vi"]) > 1:
                t["vi"] = t["vi"][:-1]
            elif r < 0.75:
                t["io"] = t["io"] + [t["io"][-1] + 1.0]
            elif r < 0.9:
                t[z] = [row + [row[-1]] for row in t[z]]
            else:
                t[z][-1] = t[z][-1][:-1]              # ragged
        elif cause == "ig_table_negative":
            r, k = rng.randrange(len(t["vi"])), rng.randrange(len(t["io"]))
            t[z][r][k] = -sd(rng, 1e-9, 1e-2)
    elif cause == "limits_malformed":
        lim = a.get("limits") or gen_limits(rng)
        key = rng.choice([k for k in lim if k in LIMIT_KEYS])
        lim[key] = rng.choice([1.0, 5, "x", {"lo": 0, "hi": 1}, [1.0], [], [0.0, 1.0, 2.0], [0.0, "1"], ["a", "b"],
                               [None, 1.0], [[0.0], 1.0]])
        a["limits"] = lim
    elif cause == "rs_list_non_numeric":
        if kind == "rectifier":
            a.pop("vdrop", None)
        n = rng.randint(1, 3)
        l = [mag(rng, 1e-3, 1.0) for _ in range(n)]
        l[rng.randrange(n)] = rng.choice(["0.1", None, [0.1], {"r": 1}])
        a["rs"] = l
    return a, cause


# ---------------------------------------------------------------------------------------------------
# type confusions (no claim by the property; model and implementation must still agree)

def gen_confused(rng, kind):
    """-> (args, tag)"""
    a = gen_valid(rng, kind)
    bad = lambda: rng.choice(["1.0", None, [1.0], "x"])  # noqa
    opts = []
    for k in MAGS[kind]:
        opts.append(("scalar:" + k, k))
    if kind in ("converter",):
        opts.append(("scalar:eff", "eff"))
    if kind == "linreg":
        opts.append(("scalar:vo", "vo"))
    opts.append(("limits", "limits"))
    if kind in ("pload", "iload", "rload"):
        opts.append(("loss", "loss"))
    if any(k == kind for (k, _a) in TABLES):
        opts += [("table", None)] * 3
    tag, k = rng.choice(opts)
    if tag == "limits":
        a["limits"] = rng.choice([1, 2.5])
    elif tag == "loss":
        a["loss"] = rng.choice(["yes", "", None, 2, 0.0])
    elif tag == "table":
        arg, z = ensure_table(rng, kind, a)
        t = a[arg]
        how = rng.choice(["io_scalar", "vi_scalar", "z_scalar", "z_flat", "io_elem", "z_elem", "vi_elem",
                          "one_column", "dup_vi", "empty"])
        if how == "io_scalar":
            t["io"] = rng.choice([1.0, "io", None])
        elif how == "vi_scalar":
            t["vi"] = rng.choice([1.0, None])
        elif how == "z_scalar":
            t[z] = rng.choice([0.5, None])
        elif how == "z_flat":
            t[z] = list(t[z][0]) if rng.random() < 0.7 else []
        elif how == "io_elem":
            t["io"][rng.randrange(len(t["io"]))] = rng.choice(["0.5", None])
        elif how == "z_elem":
            r, c = rng.randrange(len(t["vi"])), rng.randrange(len(t["io"]))
            t[z][r][c] = rng.choice(["0.5", None])
        elif how == "vi_elem":
            t["vi"][rng.randrange(len(t["vi"]))] = rng.choice(["5", None])
        elif how == "one_column":                     # 2-D: all grid points on one line (QhullError)
            t["io"] = t["io"][:1]
            t[z] = [row[:1] for row in t[z]]
        elif how == "dup_vi":
            if len(t["vi"]) == 1:
                t["vi"] = t["vi"] * 2
                t[z] = t[z] * 2
            else:
                t["vi"] = [t["vi"][0]] + [signed(rng, t["vi"][0]) for _ in t["vi"][1:]]
        elif how == "empty":
            t["io"] = []
            t[z] = [[] for _ in t[z]]
        tag = "table:" + how
    else:
        a[k] = bad() if rng.random() < 0.8 else rng.choice([True, False])
        if kind == "rectifier" and k in ("rs", "ig", "iq"):
            a.pop("vdrop", None)
    return a, tag


# ---------------------------------------------------------------------------------------------------
# the property's rejection table, as a predicate over the raw arguments (independent of model and code)

def rect_diode(a):
    v = a.get("vdrop", 0.0)
    return not (isnum(v) and v == 0.0)


def table_causes(t, z, nonneg=False, unit=False):
    """causes for which the property demands ValueError on table `t` with value key `z`"""
    out = []
    if not isinstance(t, dict):
        return out
    if "vi" not in t or "io" not in t or z not in t:
        return ["table_missing_key"]
    vi, io, zz = t["vi"], t["io"], t[z]
    if isinstance(io, list) and all(isnum(x) for x in io):
        if any(not (b > a) for a, b in zip(io, io[1:])) or any(not (abs(b) > abs(a)) for a, b in zip(io, io[1:])):
            out.append("io_not_increasing")      # the axis is looked up in magnitude
    else:
        return out
    if isinstance(vi, list) and isinstance(zz, list) and all(isinstance(r, list) for r in zz) and len(zz) > 0:
        if len(zz) != len(vi) or any(len(r) != len(io) for r in zz):
            out.append("shape_mismatch")
        flat = [x for r in zz for x in r]
        if all(isnum(x) for x in flat) and flat:
            if nonneg and min(flat) < 0:
                out.append("ig_table_negative")
            if unit and (min(flat) <= 0 or max(flat) > 1):
                out.append("eff_table_range")
    return out


def must_reject(kind, a):
    """list of rejection causes of property C11 that apply to `kind(**a)`; empty = no rejection demanded"""
    out = []
    lim = a.get("limits")
    if isinstance(lim, dict):
        for k in LIMIT_KEYS:
            if k in lim:
                v = lim[k]
                if not isinstance(v, list) or len(v) != 2 or not all(isnum(x) for x in v):
                    out.append("limits_malformed")
                    break
    if kind == "converter":
        e = a.get("eff")
        if isnum(e) and (e <= 0 or e > 1):
            out.append("eff_const_range")
        out += table_causes(e, "eff", unit=True)
    if kind == "linreg":
        vo, vd = a.get("vo"), a.get("vdrop", 0.0)
        if isnum(vo) and isnum(vd) and abs(vd) >= abs(vo):
            out.append("linreg_dropout")
        iq = a.get("iq", 0.0)
        if isinstance(iq, dict):                   # deprecated spelling: value key "iq" (renamed) or already "ig"
            out += table_causes(iq, "iq" if "iq" in iq else "ig", nonneg=True)
        elif isnum(iq) and iq == 0.0:
            out += table_causes(a.get("ig"), "ig", nonneg=True)
    if kind == "rload":
        rs = a.get("rs")
        if isnum(rs) and rs == 0:
            out.append("rload_zero")
    if kind == "vloss":
        out += table_causes(a.get("vdrop"), "vdrop")
    if kind in ("pswitch", "pmux"):
        out += table_causes(a.get("ig"), "ig", nonneg=True)
    if kind == "pmux" and isinstance(a.get("rs"), list) and not all(isnum(x) for x in a["rs"]):
        out.append("rs_list_non_numeric")
    if kind == "rectifier":
        if rect_diode(a):
            out += table_causes(a.get("vdrop"), "vdrop")
        else:
            if isinstance(a.get("rs"), list) and not all(isnum(x) for x in a["rs"]):
                out.append("rs_list_non_numeric")
            out += table_causes(a.get("ig"), "ig", nonneg=True)
    return out


def abs_args(kind, a):
    """the same call with every magnitude-type scalar argument (and rs-list entry) replaced by its magnitude"""
    b = copy.deepcopy(a)
    for k in MAGS[kind]:
        if k in b and isnum(b[k]) and not isinstance(b[k], bool):
            b[k] = abs(b[k])
        elif k in b and isinstance(b[k], list) and all(isnum(x) for x in b[k]):
            b[k] = [abs(x) for x in b[k]]
    return b


def neg_facts(kind, a):
    """which magnitude-type arguments carry a negative sign"""
    out = {}
    for k in MAGS[kind]:
        v = a.get(k)
        if isnum(v) and not isinstance(v, bool) and v < 0:
            out[k + "_scalar_negative"] = True
        if isinstance(v, list) and any(isnum(x) and x < 0 for x in v):
            out[k + "_list_negative"] = True
    return out


def probe_point(rng, kind, a):
    """(V, I) of the probe `Source(V) -> kind(**a) -> ILoad(I)` such that polarity is kept (light load)"""
    def mx(v):
        if isnum(v):
            return abs(v)
        if isinstance(v, list):
            return max([abs(x) for x in v if isnum(x)] + [0.0])
        return 0.0
    drop = 0.0
    vd = a.get("vdrop")
    if isinstance(vd, dict):
        drop = max([abs(x) for r in vd.get("vdrop", []) if isinstance(r, list) for x in r if isnum(x)] + [0.0])
    elif kind in ("vloss", "rectifier"):
        drop = mx(vd)
    if kind == "rectifier":
        drop *= 2
    v = max(sd(rng, 3.0, 48.0), 4.0 * drop)
    r = mx(a.get("rs")) * (2 if kind == "rectifier" else 1)
    i = sd(rng, 1e-3, 1.0)
    if r > 0 and kind not in ("rload",):
        i = min(i, float("%.3g" % (0.2 * v / r)))
    if kind == "converter":
        i = min(i, 2.0)
    return signed(rng, v, 0.3), i
