"""System descriptions: build through the public API of sysloss, observe, convert to wire form."""
import io, os, math, warnings, contextlib, copy
from fractions import Fraction
import numpy as np

os.environ.setdefault("MPLBACKEND", "Agg")
warnings.filterwarnings("ignore")

import sysloss  # noqa: E402  (editable install of /repo: always the current working tree)
from sysloss.components import (Source, PLoad, ILoad, RLoad, RLoss, VLoss, Converter, LinReg,  # noqa
                                PSwitch, PMux, Rectifier)
from sysloss.system import System  # noqa

from . import wire  # noqa

KIND_CLASS = {"source": Source, "pload": PLoad, "iload": ILoad, "rload": RLoad, "rloss": RLoss,
              "vloss": VLoss, "converter": Converter, "linreg": LinReg, "pswitch": PSwitch,
              "pmux": PMux, "rectifier": Rectifier}
LOADS = ("pload", "iload", "rload")
TABLE_KEY = {"converter": "eff", "vloss": "vdrop", "linreg": "ig", "pswitch": "ig", "pmux": "ig"}


def mk_comp(c):
    """constructor call for one component of a description (args are deep-copied: LinReg mutates iq dicts)"""
    return KIND_CLASS[c["kind"]](c["name"], **copy.deepcopy(c["args"]))


def build(desc):
    """Build the system of a description through the public API, in list order.

    `desc["_build"]` (optional, chosen by the generator so that replays are deterministic) varies the HISTORY by
    which the same final structure is reached — the properties quantify over systems, not over ways to build them:
      {"detour": {"x": leaf name, "decoy_parent": name}}  build without x but with a decoy leaf, solve once,
                                                           delete the decoy, add x   (stale caches, index re-use)
      {"phase_order": "comp_first" | "redefine"}           component phases before the system phases / system
                                                           phases defined twice with different names
      {"moved": {"x": leaf, "first_parent": name}}         the leaf is first attached to another parent, the system is solved, the
                                                           leaf is deleted and re-added under the same name at its real place
      {"presolve_rename": {"x": name}}                     x is built under another name, the system is solved once, then x gets
                                                           its name through change_comp() (stale names in caches of analyses)
      {"retouch": {"x": name}}                             a component without phase configuration gets a decoy one and is
                                                           then replaced by itself (same name): change_comp() resets it
      {"dupbridge": {"child": mux, "slot": k, "rail": r}}  the PMux lists input k by its rail name r followed by a temporary
                                                           child of that input, which is deleted at the end with
                                                           del_childs=False (its entry re-points to input k: de-duplication)
      {"bridge": {"child": name, "slot": k}}               the child's k-th parent link is first built through an
                                                           ideal pass-through stage that is deleted at the end with
                                                           del_childs=False (re-linking, PMux input bookkeeping)
    """
    comps = desc["comps"]
    for d_ in desc.get("_decoys") or []:
        # components that were created earlier in the same process and never added to this system (another design, a what-if
        # variant): whatever their constructors left at class or module level must not reach this system
        try:
            mk_comp(dict(d_, name="__decoy"))
        except Exception:      # noqa
            pass
    plan = desc.get("_build") or {}
    det = plan.get("detour")
    order = plan.get("phase_order", "normal")
    bridge = plan.get("bridge")
    retouch = plan.get("retouch")
    if retouch and any(c["name"] == retouch["x"] and c.get("pconf") is not None for c in comps):
        retouch = None          # the plan is for a component WITHOUT a phase configuration (a stream gave it one afterwards): not applicable
    dup = plan.get("dupbridge")
    moved = plan.get("moved")
    pre = plan.get("presolve_rename")
    alias = {pre["x"]: "__pre_" + pre["x"]} if pre else {}
    sys = None

    def add(c):
        nonlocal sys
        comp = mk_comp(dict(c, name=alias[c["name"]])) if c["name"] in alias else mk_comp(c)
        kw = {}
        if c.get("group", ""):
            kw["group"] = c["group"]
        if c.get("rail", ""):
            kw["rail"] = c["rail"]
        if sys is None:
            sys = System(desc.get("name", "sys"), comp, **kw)
        elif c["kind"] == "source":
            sys.add_source(comp, **kw)
        else:
            par = [alias.get(q, q) for q in c["parents"]]
            if moved and moved["x"] == c["name"] and not moved.get("_done"):
                par = [moved["first_parent"]]
            if bridge and bridge["child"] == c["name"]:
                sys.add_comp(par[bridge["slot"]], comp=PSwitch("__bridge"))
                par[bridge["slot"]] = "__bridge"
            if dup and dup["child"] == c["name"]:
                # the PMux gets input `slot` BY RAIL NAME and, right after it, a temporary child of that very input; deleting
                # the temporary stage (del_childs=False) re-points its entry to the same input: the two entries denote one
                # node in two spellings and must collapse into one
                sys.add_comp(dup["rail"], comp=PSwitch("__dup"))
                par[dup["slot"]] = dup["rail"]
                par.insert(dup["slot"] + 1, "__dup")
            sys.add_comp(par if (len(par) > 1 or c.get("plist")) else par[0], comp=comp, **kw)

    def comp_phases(cs):
        for c in cs:
            if c.get("pconf") is not None and c["name"] not in alias:
                sys.set_comp_phases(c["name"], copy.deepcopy(c["pconf"]))

    with warnings.catch_warnings():
        warnings.simplefilter("ignore")
        first = [c for c in comps if not (det and c["name"] == det["x"])]
        for c in first:
            add(c)
        if det:
            sys.add_comp(det["decoy_parent"], comp=ILoad("__decoy", ii=0.0123))
        if order == "comp_first":
            comp_phases(first)
        elif order == "redefine" and desc.get("phases"):
            sys.set_sys_phases({"__old1": 1.0, "__old2": 2.0})
            comp_phases(first)
        if desc.get("phases"):
            sys.set_sys_phases(dict(desc["phases"]))
        if order == "normal":
            comp_phases(first)
        if det:
            quiet_call(sys.solve)
            sys.del_comp("__decoy")
            x = [c for c in comps if c["name"] == det["x"]][0]
            add(x)
            comp_phases([x])
        if bridge:
            sys.del_comp("__bridge", del_childs=False)
        if dup:
            sys.del_comp("__dup", del_childs=False)
        if moved:
            # the leaf sits at another place; everything is solved (caches filled), then it is deleted and re-added under the
            # SAME name at its real place - the name -> node index map is the same as before, the wiring is not
            c = [c for c in comps if c["name"] == moved["x"]][0]
            quiet_call(sys.solve)
            if moved.get("presave"):
                # ... and saved once (an autosave): whatever save() remembers must not survive the move
                import tempfile, os
                fd, tmpf = tempfile.mkstemp(suffix=".json", prefix="presave-")
                os.close(fd)
                try:
                    quiet_call(sys.save, tmpf)
                finally:
                    os.unlink(tmpf)
            sys.del_comp(c["name"])
            moved["_done"] = True
            try:
                add(c)
            finally:
                moved.pop("_done", None)
            comp_phases([c])
        if pre:
            # the component was built under another name; everything is solved once (every cache an analysis keeps is filled)
            # and only then it gets its final name through change_comp() - names cached by an analysis must not survive that
            c = [c for c in comps if c["name"] == pre["x"]][0]
            quiet_call(sys.solve)
            kw = {}
            if c.get("group", ""):
                kw["group"] = c["group"]
            if c.get("rail", ""):
                kw["rail"] = c["rail"]
            sys.change_comp(alias[c["name"]], comp=mk_comp(c), **kw)
            if c.get("pconf") is not None:
                sys.set_comp_phases(c["name"], copy.deepcopy(c["pconf"]))
        if retouch:
            # a component WITHOUT phase configuration is given a decoy configuration and then replaced by an identical
            # component of the same name: change_comp() resets the phase configuration, so the decoy must leave no trace
            c = [c for c in comps if c["name"] == retouch["x"]][0]
            sys.set_comp_phases(c["name"], {"__never": 1.0} if c["kind"] in ("pload", "iload", "rload") else ["__never"])
            kw = {}
            if c.get("group", ""):
                kw["group"] = c["group"]
            if c.get("rail", ""):
                kw["rail"] = c["rail"]
            sys.change_comp(c["name"], comp=mk_comp(c), **kw)
    return sys


# ---------------------------------------------------------------------------------------------------
# scipy's diagonal choice per cell of a 2-D table (a parameter of the model, observed from scipy itself)

def table_diag(t, z):
    from scipy.interpolate import LinearNDInterpolator
    vi = [abs(float(x)) for x in t["vi"]]
    io_ = [abs(float(x)) for x in t["io"]]
    if len(vi) < 2 or len(io_) < 2:
        return None
    cur, volt = [], []
    for v in vi:
        cur += io_
        volt += len(io_) * [v]
    vals = np.abs(np.asarray(t[z], dtype=float)).reshape(1, -1)[0].tolist()
    itp = LinearNDInterpolator(list(zip(cur, volt)), vals)
    order = sorted(range(len(vi)), key=lambda r: vi[r])
    svi = [vi[r] for r in order]
    f = [[abs(float(t[z][r][k])) for k in range(len(io_))] for r in order]
    diag = []
    for r in range(len(svi) - 1):
        row = []
        for k in range(len(io_) - 1):
            cx, cy = 0.5 * (io_[k] + io_[k + 1]), 0.5 * (svi[r] + svi[r + 1])
            val = float(itp([cx], [cy])[0])
            main = 0.5 * (f[r][k] + f[r + 1][k + 1])
            anti = 0.5 * (f[r][k + 1] + f[r + 1][k])
            row.append(bool(abs(val - main) <= abs(val - anti)))
        diag.append(row)
    return diag


def args_wire(kind, args):
    """constructor kwargs -> wire PV dict, with scipy's diagonal choice attached to 2-D tables"""
    out = []
    for k, v in args.items():
        if isinstance(v, dict) and k != "limits" and "vi" in v and "io" in v:
            z = k if k in v else ("ig" if (k == "iq" and "iq" not in v) else k)
            w = wire.pv(v)
            try:
                d = table_diag(v, z)
            except Exception:
                d = None
            if d is not None:
                w["$d"].append(["__diag", d])
            out.append([k, w])
        else:
            out.append([k, wire.pv(v)])
    return {"$d": out}


def to_wire(desc, topo_names=None):
    """description -> the `sys` object of the driver's cert/run commands"""
    comps = desc["comps"]
    idx = {c["name"]: i for i, c in enumerate(comps)}
    rails = {c["rail"]: i for i, c in enumerate(comps) if c.get("rail")}

    def res(p):
        return idx[p] if p in idx else rails[p]

    nodes = []
    for i, c in enumerate(comps):
        pc = c.get("pconf")
        if pc is None:
            pcw = None
        elif isinstance(pc, list):
            pcw = {"names": list(pc)}
        else:
            pcw = {"table": [[k, wire.num(v)] for k, v in pc.items()]}
        nodes.append({"id": i, "kind": c["kind"], "name": c["name"], "args": args_wire(c["kind"], c["args"]),
                      "parents": [res(p) for p in c.get("parents", [])], "childs": [],
                      "pconf": pcw, "group": c.get("group", ""),
                      "rail": "" if c["kind"] in LOADS else c.get("rail", "")})
    for i in reversed(range(len(comps))):          # rustworkx lists the newest edge first
        for p in nodes[i]["parents"]:
            nodes[p]["childs"].append(i)
    topo = [idx[n] for n in topo_names] if topo_names is not None else list(range(len(comps)))
    return {"nodes": nodes, "topo": topo, "hidx": len(comps),
            "phases": [[k, wire.num(v)] for k, v in (desc.get("phases") or {}).items()]}


# ---------------------------------------------------------------------------------------------------
# observation of solve() / rail_rep()

COLS = {"Component": "name", "Type": "typ", "Parent": "parent", "Rail in": "railIn", "Domain": "domain",
        "Group": "group", "Rail out": "railOut", "Phase": "phase", "Vin (V)": "vin", "Vout (V)": "vout",
        "Iin (A)": "iin", "Iout (A)": "iout", "Power (W)": "pwr", "Loss (W)": "loss",
        "Efficiency (%)": "eff", "Temp. rise (°C)": "tr", "Peak temp. (°C)": "tp",
        "24h energy (Wh)": "ener", "Warnings": "warn"}
NUMCOLS = ("vin", "vout", "iin", "iout", "pwr", "loss", "eff", "tr", "tp", "ener")


def _cell(key, x):
    if key in NUMCOLS:
        if isinstance(x, str):
            return None
        x = float(x)
        return x
    return "" if x is None else str(x)


def observe(df):
    """DataFrame of solve() -> {"cols": [...], "phases": [{"phase", "rows", "subs", "total"}], "avg": row|None}"""
    cols = [COLS[c] for c in df.columns if c in COLS]
    recs = []
    for _, r in df.iterrows():
        d = {}
        for c in df.columns:
            if c in COLS:
                d[COLS[c]] = _cell(COLS[c], r[c])
        recs.append(d)
    phases, cur, avg = [], None, None
    for d in recs:
        if d["name"] == "System average" and d.get("typ", "") == "":
            avg = d
            continue
        ph = d.get("phase", "")
        if cur is None or cur["phase"] != ph:
            cur = {"phase": ph, "rows": [], "subs": [], "total": None}
            phases.append(cur)
        if d.get("typ", "") != "":
            cur["rows"].append(d)
        elif d["name"] == "System total":
            cur["total"] = d
        else:
            cur["subs"].append(d)
    return {"cols": cols, "phases": phases, "avg": avg}


def quiet_call(f, *a, **k):
    """call f capturing stdout/stderr and warnings; returns (result, exception)"""
    buf = io.StringIO()
    with warnings.catch_warnings():
        warnings.simplefilter("ignore")
        with contextlib.redirect_stdout(buf), contextlib.redirect_stderr(buf):
            try:
                return f(*a, **k), None
            except Exception as e:  # noqa
                return None, e


class CheckBudgetExceeded(BaseException):
    """the whole run exceeded its wall-clock budget (check.py: exit 2) - a BaseException so that no `except Exception` of an oracle
    mistakes it for a behaviour of the code under test"""


GLOBAL_DEADLINE = [None]          # absolute time.time() of the run's global watchdog, set by check.py


class HarnessTimeout(Exception):
    """a library call did not return within the watchdog time (a non-terminating loop is a finding, not a hang)"""


def quiet_call_timeout(seconds, f, *a, **k):
    """quiet_call under a SIGALRM watchdog; returns (result, exception) with HarnessTimeout on expiry"""
    import signal

    def on_alarm(signum, frame):
        raise HarnessTimeout("no return within %d s" % seconds)
    import time
    old = signal.signal(signal.SIGALRM, on_alarm)
    t0 = time.time()
    outer = signal.alarm(int(seconds))          # seconds left on the run's global watchdog (check.py), 0 if none
    try:
        return quiet_call(f, *a, **k)
    except HarnessTimeout as e:          # raised outside quiet_call's own try block
        return None, e
    finally:
        signal.alarm(0)
        signal.signal(signal.SIGALRM, old)
        if GLOBAL_DEADLINE[0] is not None:
            # re-arm the run's global watchdog from its ABSOLUTE deadline (alarm() works in whole seconds: re-arming with "what was left"
            # loses up to a second per call and would eat - or, rounded to 0, silently drop - the budget after a few thousand calls)
            left = GLOBAL_DEADLINE[0] - time.time()
            if left <= 0:
                raise CheckBudgetExceeded("global budget exhausted")
            signal.alarm(max(1, int(left + 0.999)))
        elif outer:
            signal.alarm(max(1, int(outer - (time.time() - t0) + 0.999)))


def obs_vectors(desc, obs):
    """(v, i) per phase from the Vout / Iin columns, indexed by description id"""
    idx = {c["name"]: i for i, c in enumerate(desc["comps"])}
    out = []
    for p in obs["phases"]:
        v = [0.0] * len(idx)
        i = [0.0] * len(idx)
        for r in p["rows"]:
            v[idx[r["name"]]] = r["vout"]
            i[idx[r["name"]]] = r["iin"]
        out.append({"phase": p["phase"], "v": [wire.num(x) for x in v], "i": [wire.num(x) for x in i],
                    "rows": [[idx[r["name"]], wire.num(r["vin"]), wire.num(r["iout"])] for r in p["rows"]]})
    return out


def exc_class(e):
    if e is None:
        return "ok"
    n = type(e).__name__
    if isinstance(e, ValueError) and "Unstable system" in str(e):
        return "ValueError(unstable)"
    return n
